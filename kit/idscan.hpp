#pragma once
// idscan — reference view of identifiers in RS text (MATH syntax), written from the lexer specification
// (maximal munch over digit runs, identifier-like runs and single code points), not from TranslateRS.
// refscan — independent extractor of @{...} occurrences by brace counting.
#include <map>
#include <set>
#include <string>
#include <vector>

namespace idscan {

enum Cls { NUMBER, LOCAL, KEYWORD, RADICAL, FUNCTION, PREDICATE, GLOBAL, SYMBOL };
struct Tok { size_t b{ 0 }, e{ 0 }; Cls cls{ SYMBOL }; std::string text; };

inline bool IsDigit(unsigned char c) { return c >= '0' && c <= '9'; }
inline bool IsUpper(unsigned char c) { return c >= 'A' && c <= 'Z'; }
inline bool IsLowerAscii(unsigned char c) { return c >= 'a' && c <= 'z'; }
// length of a Greek lower-case letter U+03B1..U+03C9 at s[i], else 0
inline size_t GreekAt(const std::string& s, size_t i) {
  if (i + 1 >= s.size()) return 0;
  const unsigned char a = static_cast<unsigned char>(s[i]), b = static_cast<unsigned char>(s[i + 1]);
  if (a == 0xCE && b >= 0xB1 && b <= 0xBF) return 2;
  if (a == 0xCF && b >= 0x80 && b <= 0x89) return 2;
  return 0;
}
inline size_t AlnumAt(const std::string& s, size_t i) {
  const unsigned char c = static_cast<unsigned char>(s[i]);
  if (c == '_' || IsDigit(c) || IsUpper(c) || IsLowerAscii(c)) return 1;
  return GreekAt(s, i);
}
inline bool AllDigits(const std::string& s, size_t from) { if (from >= s.size()) return false; for (size_t i = from; i < s.size(); ++i) if (!IsDigit(static_cast<unsigned char>(s[i]))) return false; return true; }

inline std::vector<Tok> Scan(const std::string& s) {
  std::vector<Tok> out;
  size_t i = 0;
  while (i < s.size()) {
    const unsigned char c = static_cast<unsigned char>(s[i]);
    Tok t; t.b = i;
    if (IsDigit(c)) { size_t j = i; while (j < s.size() && IsDigit(static_cast<unsigned char>(s[j]))) ++j; t.e = j; t.cls = NUMBER; }
    else if (c == 'B') { t.e = i + 1; t.cls = SYMBOL; }     // 'B' starts no identifier in MATH syntax
    else if (c == '_' || IsUpper(c) || IsLowerAscii(c) || GreekAt(s, i)) {
      size_t j = i; for (size_t n; j < s.size() && (n = AlnumAt(s, j)) != 0; j += n) {}
      std::string w = s.substr(i, j - i);
      auto extendIndex = [&]() { while (j + 1 < s.size() && s[j] == ',' && IsDigit(static_cast<unsigned char>(s[j + 1]))) { ++j; while (j < s.size() && IsDigit(static_cast<unsigned char>(s[j]))) ++j; } };
      if (!IsUpper(c)) {
        if (w == "card" || w == "bool" || w == "red" || w == "debool") t.cls = KEYWORD;
        else if (w.size() > 2 && w.compare(0, 2, "pr") == 0 && AllDigits(w, 2)) { t.cls = KEYWORD; extendIndex(); }
        else t.cls = LOCAL;
      } else {
        if (w == "D" || w == "R" || w == "I" || w == "Z") t.cls = KEYWORD;
        else if (w.size() > 2 && (w.compare(0, 2, "Pr") == 0 || w.compare(0, 2, "Fi") == 0) && AllDigits(w, 2)) { t.cls = KEYWORD; extendIndex(); }
        else if (w.size() > 1 && w[0] == 'F' && AllDigits(w, 1)) t.cls = FUNCTION;
        else if (w.size() > 1 && w[0] == 'P' && AllDigits(w, 1)) t.cls = PREDICATE;
        else if (w.size() > 1 && w[0] == 'R' && AllDigits(w, 1)) t.cls = RADICAL;
        else t.cls = GLOBAL;
      }
      t.e = j;
    } else {
      size_t n = c < 0x80 ? 1 : (c & 0x20) == 0 ? 2 : (c & 0x10) == 0 ? 3 : 4; if (i + n > s.size()) n = s.size() - i;
      t.e = i + n; t.cls = SYMBOL;
    }
    t.text = s.substr(t.b, t.e - t.b);
    out.push_back(t); i = t.e;
  }
  return out;
}
inline bool Renamable(Cls c) { return c == GLOBAL || c == FUNCTION || c == PREDICATE; }

// expected text after applying the alias map simultaneously to every whole-identifier occurrence
inline std::string Translate(const std::string& s, const std::map<std::string, std::string>& m) {
  std::string r;
  for (auto& t : Scan(s)) { if (Renamable(t.cls)) { auto it = m.find(t.text); if (it != m.end()) { r += it->second; continue; } } r += t.text; }
  return r;
}
inline std::set<std::string> Globals(const std::string& s) { std::set<std::string> r; for (auto& t : Scan(s)) if (Renamable(t.cls)) r.insert(t.text); return r; }

} // namespace idscan

namespace refscan {

struct Ref { size_t b{ 0 }, e{ 0 }; std::vector<std::string> fields; };   // byte range of "@{...}" and its '|' separated fields

// every balanced "@{...}" occurrence, left to right, non-overlapping (next search starts after the closing brace)
inline std::vector<Ref> Scan(const std::string& s) {
  std::vector<Ref> out;
  size_t i = 0;
  while (i + 1 < s.size()) {
    if (s[i] == '@' && s[i + 1] == '{') {
      int depth = 0; size_t j = i + 1; bool closed = false;
      for (; j < s.size(); ++j) { if (s[j] == '{') ++depth; else if (s[j] == '}') { if (--depth == 0) { closed = true; break; } } }
      if (!closed) break;
      Ref r; r.b = i; r.e = j + 1; std::string cur;
      for (size_t k = i + 2; k < j; ++k) { if (s[k] == '|') { r.fields.push_back(cur); cur.clear(); } else cur += s[k]; }
      r.fields.push_back(cur);
      out.push_back(r); i = j + 1;
    } else ++i;
  }
  return out;
}
// entity name of a candidate if it has the entity shape (first field starts with an ASCII letter, >= 2 fields), else empty
inline std::string EntityOf(const Ref& r) {
  if (r.fields.size() < 2 || r.fields.size() > 4 || r.fields[0].empty()) return {};
  const unsigned char c = static_cast<unsigned char>(r.fields[0][0]);
  if (!((c >= 'A' && c <= 'Z') || (c >= 'a' && c <= 'z'))) return {};
  return r.fields[0];
}

// ---- grammeme table and canonical tag spelling (enum order), written from the documented tag list
inline const std::vector<std::string>& Tags() {
  static const std::vector<std::string> t{ "NOUN", "NPRO", "INFN", "VERB", "ADJF", "ADJS", "PRTF", "PRTS", "ADVB", "GRND", "COMP", "PRED", "NUMR",
    "CONJ", "INTJ", "PRCL", "PREP", "PNCT", "pres", "past", "futr", "1per", "2per", "3per", "sing", "plur", "masc", "femn", "neut",
    "nomn", "gent", "datv", "ablt", "accs", "loct" };
  return t;
}
inline int TagIndex(const std::string& t) { for (size_t i = 0; i < Tags().size(); ++i) if (Tags()[i] == t) return static_cast<int>(i); return -1; }
inline std::string CanonTags(const std::set<int>& idx) { std::string r; for (int i : idx) { if (!r.empty()) r += ","; r += Tags()[static_cast<size_t>(i)]; } return r; }
inline std::string TrimWs(const std::string& s) { size_t a = 0, b = s.size(); while (a < b && (s[a] == ' ' || s[a] == '\t')) ++a; while (b > a && (s[b - 1] == ' ' || s[b - 1] == '\t')) --b; return s.substr(a, b - a); }
// valid grammemes of an entity-shaped candidate in either documented spelling; empty => not a reference
inline std::set<int> TagsOf(const Ref& r) {
  std::set<int> tags;
  if (EntityOf(r).empty()) return tags;
  if (r.fields.size() == 2) { std::string cur; for (char c : r.fields[1] + ",") { if (c == ',') { const int i = TagIndex(TrimWs(cur)); if (i >= 0) tags.insert(i); cur.clear(); } else cur += c; } }
  else {
    std::vector<std::string> f(r.fields.begin() + 1, r.fields.end());
    if (!f.back().empty() && f.back()[0] >= '0' && f.back()[0] <= '9') f.pop_back();
    for (auto& x : f) { const int i = TagIndex(TrimWs(x)); if (i >= 0) tags.insert(i); }
  }
  return tags;
}
// expected raw text after translating entity references with map m: translated references appear in canonical
// spelling, everything else stays byte-identical
inline std::string TranslateRefs(const std::string& s, const std::map<std::string, std::string>& m) {
  std::string out; size_t cur = 0;
  for (auto& r : Scan(s)) {
    const std::string e = EntityOf(r); const auto tags = TagsOf(r);
    auto it = m.find(e);
    if (!e.empty() && !tags.empty() && it != m.end() && it->second != e) { out += s.substr(cur, r.b - cur); out += "@{" + it->second + "|" + CanonTags(tags) + "}"; cur = r.e; }
  }
  return out + s.substr(cur);
}
inline std::set<std::string> Entities(const std::string& s) { std::set<std::string> out; for (auto& r : Scan(s)) if (!EntityOf(r).empty() && !TagsOf(r).empty()) out.insert(EntityOf(r)); return out; }

} // namespace refscan
