#pragma once
// simkit — deterministic simulation kernel shared by all engines.
//   one integer (VERIF_SEED) -> per-run seed -> independent streams (cfg, gen, sched, uid)
//   plans of concrete ops, online generation, replay, oracles after each step,
//   forked execution for crash capture, ddmin minimiser, fresh-process replay gate,
//   known-findings handling, evidence writer.
#include <algorithm>
#include <cerrno>
#include <chrono>
#include <cinttypes>
#include <csignal>
#include <cstdint>
#include <cstdio>
#include <cstdlib>
#include <cstring>
#include <exception>
#include <fstream>
#include <functional>
#include <map>
#include <optional>
#include <set>
#include <sstream>
#include <string>
#include <string_view>
#include <typeinfo>
#include <unordered_set>
#include <vector>

#include <fcntl.h>
#include <poll.h>
#include <sys/stat.h>
#include <sys/time.h>
#include <sys/types.h>
#include <sys/wait.h>
#include <unistd.h>

#include "ccl/verifHooks.hpp"

namespace sim {

// ---------------------------------------------------------------- hashing / PRNG
inline uint64_t Fin(uint64_t x) {
  x ^= x >> 30; x *= 0xbf58476d1ce4e5b9ULL;
  x ^= x >> 27; x *= 0x94d049bb133111ebULL;
  x ^= x >> 31; return x;
}
inline uint64_t Mix(uint64_t a, uint64_t b) { return Fin(a * 0x9e3779b97f4a7c15ULL + b + 0x632be59bd9b4e019ULL); }
inline uint64_t HashStr(std::string_view s, uint64_t h = 0xcbf29ce484222325ULL) {
  for (unsigned char c : s) { h ^= c; h *= 0x100000001b3ULL; }
  return Fin(h ^ s.size());
}

struct Rng {
  uint64_t s[4];
  explicit Rng(uint64_t seed = 1) { Seed(seed); }
  void Seed(uint64_t seed) {
    uint64_t x = seed;
    for (auto& v : s) { x += 0x9e3779b97f4a7c15ULL; v = Fin(x); }
    if ((s[0] | s[1] | s[2] | s[3]) == 0) s[0] = 1;
  }
  static uint64_t Rotl(uint64_t x, int k) { return (x << k) | (x >> (64 - k)); }
  uint64_t Next() {
    const uint64_t r = Rotl(s[1] * 5, 7) * 9, t = s[1] << 17;
    s[2] ^= s[0]; s[3] ^= s[1]; s[1] ^= s[2]; s[0] ^= s[3]; s[2] ^= t; s[3] = Rotl(s[3], 45);
    return r;
  }
  uint64_t Below(uint64_t n) { return n == 0 ? 0 : Next() % n; }
  int Range(int lo, int hi) { return hi <= lo ? lo : lo + static_cast<int>(Below(static_cast<uint64_t>(hi - lo) + 1)); }
  bool Chance(double p) { return static_cast<double>(Next() >> 11) * (1.0 / 9007199254740992.0) < p; }
  bool Pct(int p) { return static_cast<int>(Below(100)) < p; }
  template <class T> const T& Pick(const std::vector<T>& v) { return v[Below(v.size())]; }
  // weighted choice over weights (>=0); returns index
  size_t Weighted(const std::vector<int>& w) {
    uint64_t total = 0; for (int x : w) total += static_cast<uint64_t>(x > 0 ? x : 0);
    if (total == 0) return 0;
    uint64_t r = Below(total);
    for (size_t i = 0; i < w.size(); ++i) { uint64_t x = static_cast<uint64_t>(w[i] > 0 ? w[i] : 0); if (r < x) return i; r -= x; }
    return w.size() - 1;
  }
};

// ---------------------------------------------------------------- ops, plans
struct Op {
  int id{ 0 };
  int client{ 0 };
  std::string kind;
  std::vector<int64_t> n;
  std::vector<std::string> s;
  int64_t N(size_t i, int64_t d = 0) const { return i < n.size() ? n[i] : d; }
  const std::string& S(size_t i) const { static const std::string e; return i < s.size() ? s[i] : e; }
};
inline std::string Brief(const Op& o) {
  std::string r = o.kind + "(";
  bool first = true;
  for (auto v : o.n) { if (!first) r += ","; r += std::to_string(v); first = false; }
  for (auto& v : o.s) { if (!first) r += ","; r += '"'; r += v; r += '"'; first = false; }
  return r + ")";
}

using Cfg = std::map<std::string, int64_t>;

struct Violation {
  std::string property, oracle, trigger, detail;
  int step{ -1 };
  std::string Class() const { return property + "|" + oracle + "|" + trigger; }
};

struct Stats {
  std::map<std::string, uint64_t> c;
  void Add(const std::string& k, uint64_t by = 1) { c[k] += by; }
  void Merge(const Stats& o) { for (auto& [k, v] : o.c) c[k] += v; }
};

// ---------------------------------------------------------------- run context
struct Ctx {
  uint64_t runSeed{ 0 };
  uint64_t runIndex{ 0 };
  std::string focus;
  bool thorough{ false };
  bool replaying{ false };
  bool trace{ false };
  Cfg cfg;
  Rng gen{ 1 }, sched{ 1 };
  Stats* stats{ nullptr };
  std::vector<uint64_t>* states{ nullptr };
  std::vector<uint64_t>* grams{ nullptr };
  uint64_t eventHash{ 0 };
  uint64_t kindSeqHash{ 0 };
  uint64_t k1{ 0 }, k2{ 0 };
  std::optional<Violation> violation;
  int step{ 0 };
  int curOp{ -1 };
  uint32_t uidK{ 0 };
  uint64_t uidSeq{ 0 };
  bool oracleMode{ false };
  uint64_t oracleK{ 0 };
  bool nontrivial{ false };
  int faultsFired{ 0 };
  std::vector<std::string> avoid;   // ids of open known findings to steer away from in this run

  int64_t C(const std::string& k, int64_t d = 0) const { auto it = cfg.find(k); return it == cfg.end() ? d : it->second; }
  bool Avoid(const std::string& id) const { return std::find(avoid.begin(), avoid.end(), id) != avoid.end(); }
  void Count(const std::string& k, uint64_t by = 1) { if (stats) stats->Add(k, by); }
  void Probe(const std::string& k) { Count("probe." + k); }
  void Fault(const std::string& k) { Count("fault." + k); ++faultsFired; }
  void Oracle(const std::string& k) { Count("oracle." + k); }
  void Event(uint64_t h) { eventHash = Mix(eventHash, h); }
  void Event(std::string_view s) { eventHash = Mix(eventHash, HashStr(s)); if (trace) fprintf(stderr, "    ev %.*s\n", static_cast<int>(std::min<size_t>(s.size(), 400)), s.data()); }
  void State(uint64_t h) { Event(h); if (states) states->push_back(h); }
  void State(std::string_view s) { const auto h = HashStr(s); Event(s); if (states) states->push_back(h); }
  void Fail(std::string property, std::string oracle, std::string trigger, std::string detail) {
    if (!violation) violation = Violation{ std::move(property), std::move(oracle), std::move(trigger), std::move(detail), step };
  }
  bool Failed() const { return violation.has_value(); }

  // identifier source (hook H1). Policies: 0 uniform31, 1 small range with escape, 2 ascending, 3 descending, 4 extremes mix
  uint32_t NextUid() {
    if (oracleMode) { return static_cast<uint32_t>(Mix(runSeed ^ 0x0bac1e, ++oracleK) & 0x3fffffffu) | 0x40000000u; }
    const uint64_t h = Mix(Mix(runSeed ^ 0x71d, static_cast<uint64_t>(curOp + 1)), uidK++);
    ++uidSeq;
    switch (C("uid_policy", 0)) {
    default:
    case 0: return static_cast<uint32_t>(h & 0x7fffffffu);
    case 1: if (uidK % 4 == 0) return static_cast<uint32_t>(1000 + uidSeq); return static_cast<uint32_t>(h % static_cast<uint64_t>(C("uid_range", 16)));
    case 2: return static_cast<uint32_t>(uidSeq);
    case 3: return static_cast<uint32_t>(0x7fffffffu - uidSeq);
    case 4: switch (h % 5) {
      case 0: return 0; case 1: return 1; case 2: return 0x7fffffffu; case 3: return static_cast<uint32_t>(uidSeq + 1);
      default: return static_cast<uint32_t>((h >> 8) & 0x7fffffffu); }
    }
  }
};

inline Ctx*& CurrentCtx() { static Ctx* p = nullptr; return p; }

struct OracleScope {   // library code run inside an oracle draws identifiers from a separate stream
  Ctx& c; bool old;
  explicit OracleScope(Ctx& c) : c{ c }, old{ c.oracleMode } { c.oracleMode = true; }
  ~OracleScope() { c.oracleMode = old; }
};

// ---------------------------------------------------------------- engine interface
struct Engine {
  virtual ~Engine() = default;
  virtual const char* Name() const = 0;
  virtual std::vector<std::string> Properties() const = 0;
  virtual uint64_t DefaultRuns(const std::string& focus, bool thorough) const = 0;
  virtual Cfg GenCfg(Rng& r, const std::string& focus, bool thorough) = 0;
  virtual void Begin(Ctx& c) = 0;
  virtual bool GenOp(Ctx& c, Op& out) = 0;
  virtual void Exec(Ctx& c, const Op& op) = 0;
  virtual void End(Ctx& c) = 0;                       // end-of-run oracles (may Fail)
  virtual void Destroy() = 0;                         // drop the world (always called)
  virtual std::string CrashProperty(const std::string& focus, const Op& fatal) const = 0;
  virtual std::vector<std::string> RealComponents() const = 0;
  virtual std::vector<std::string> StubComponents() const = 0;
  virtual std::string Rule(const std::string& focus) const = 0;
  virtual std::vector<std::string> Assumptions(const std::string& focus) const { (void)focus; return {}; }
  virtual unsigned WatchdogSecs() const { return 12; }   // CPU seconds one run may take
};

int Main(int argc, char** argv, Engine& e);

// Engines may keep a short static tag describing the current state class; it is reported when the per-run watchdog fires
// ("timeout:<tag>"), so that a known slow state class can be told from any other hang.
inline const char*& TimeoutTag() { static const char* t = ""; return t; }

} // namespace sim
