#pragma once
// Stub of pybind11 for compiling pyconcept's wrapper functions natively (no Python in the loop).
namespace verif_pybind_stub { struct module_ { template<class... A> void def(A&&...) {} }; }
#define PYBIND11_MODULE(name, var) [[maybe_unused]] static inline void verif_stub_module_##name(verif_pybind_stub::module_& var)
