// simkit driver: forked execution, minimiser, replay gate, known findings, evidence writer.
#include "simkit.hpp"
#include "nlohmann/json.hpp"

#ifdef VERIF_COVERAGE
extern "C" void __gcov_dump(void);
#endif
namespace sim {

using json = nlohmann::ordered_json;

inline double NowS() { return std::chrono::duration<double>(std::chrono::steady_clock::now().time_since_epoch()).count(); }

// strings that are not valid UTF-8 (storage-damaged texts) travel hex-encoded so that plans stay byte-exact
inline bool Utf8Ok(const std::string& s) {
  for (size_t i = 0; i < s.size();) {
    const unsigned char c = static_cast<unsigned char>(s[i]);
    size_t n; if (c < 0x80) n = 1; else if ((c & 0xE0) == 0xC0) n = 2; else if ((c & 0xF0) == 0xE0) n = 3; else if ((c & 0xF8) == 0xF0) n = 4; else return false;
    if (i + n > s.size()) return false;
    for (size_t k = 1; k < n; ++k) if ((static_cast<unsigned char>(s[i + k]) & 0xC0) != 0x80) return false;
    if (n == 2 && c < 0xC2) return false;
    if (n == 3) { const unsigned cp = ((c & 0x0Fu) << 12) | ((static_cast<unsigned char>(s[i + 1]) & 0x3Fu) << 6); if (cp < 0x800 || (cp >= 0xD800 && cp < 0xE000)) return false; }
    if (n == 4) { const unsigned cp = ((c & 0x07u) << 18) | ((static_cast<unsigned char>(s[i + 1]) & 0x3Fu) << 12); if (cp < 0x10000 || cp > 0x10FFFF) return false; }
    i += n;
  }
  return true;
}
inline std::string EncodeStr(const std::string& s) {
  static const char* hx = "0123456789abcdef";
  if (Utf8Ok(s) && s.compare(0, 5, "\x01hex:") != 0) return s;
  std::string r = "\x01hex:"; for (unsigned char c : s) { r += hx[c >> 4]; r += hx[c & 15]; } return r;
}
inline std::string DecodeStr(const std::string& s) {
  if (s.compare(0, 5, "\x01hex:") != 0) return s;
  std::string r; auto v = [](char c) { return c <= '9' ? c - '0' : c - 'a' + 10; };
  for (size_t i = 5; i + 1 < s.size(); i += 2) r += static_cast<char>((v(s[i]) << 4) | v(s[i + 1]));
  return r;
}
inline json ToJson(const Op& o) {
  json j; j["id"] = o.id; if (o.client) j["c"] = o.client; j["k"] = o.kind;
  if (!o.n.empty()) j["n"] = o.n;
  if (!o.s.empty()) { json a = json::array(); for (auto& x : o.s) a.push_back(EncodeStr(x)); j["s"] = a; }
  return j;
}
inline Op OpFromJson(const json& j) {
  Op o; o.id = j.value("id", 0); o.client = j.value("c", 0); o.kind = j.at("k").get<std::string>();
  if (j.contains("n")) o.n = j["n"].get<std::vector<int64_t>>();
  if (j.contains("s")) for (auto& x : j["s"]) o.s.push_back(DecodeStr(x.get<std::string>()));
  return o;
}
struct KnownFinding {
  std::string id, property, oracle, trigger, status, what;
  static bool Glob(const char* p, const char* t) {   // '*' matches any run of characters
    if (*p == 0) return *t == 0;
    if (*p == '*') { for (const char* q = t;; ++q) { if (Glob(p + 1, q)) return true; if (*q == 0) return false; } }
    return *t != 0 && *p == *t && Glob(p + 1, t + 1);
  }
  bool Matches(const Violation& v) const { return property == v.property && oracle == v.oracle && Glob(trigger.c_str(), v.trigger.c_str()); }
};

struct Plan {
  std::string engine, focus;
  uint64_t verifSeed{ 0 }, runIndex{ 0 }, runSeed{ 0 };
  bool thorough{ false };
  Cfg cfg;
  std::vector<std::string> avoid;
  std::vector<Op> ops;
};

inline json PlanToJson(const Plan& p) {
  json j;
  j["format"] = 1; j["engine"] = p.engine; j["property"] = p.focus;
  j["verif_seed"] = p.verifSeed; j["run"] = p.runIndex; j["run_seed"] = p.runSeed; j["thorough"] = p.thorough;
  j["cfg"] = p.cfg; j["avoid"] = p.avoid;
  json ops = json::array(); for (auto& o : p.ops) ops.push_back(ToJson(o));
  j["ops"] = ops;
  return j;
}
inline Plan PlanFromJson(const json& j) {
  Plan p; p.engine = j.value("engine", ""); p.focus = j.value("property", "");
  p.verifSeed = j.value("verif_seed", uint64_t{ 0 }); p.runIndex = j.value("run", uint64_t{ 0 });
  p.runSeed = j.value("run_seed", uint64_t{ 0 }); p.thorough = j.value("thorough", false);
  if (j.contains("cfg")) p.cfg = j["cfg"].get<Cfg>();
  if (j.contains("avoid")) p.avoid = j["avoid"].get<std::vector<std::string>>();
  for (auto& o : j.at("ops")) p.ops.push_back(OpFromJson(o));
  return p;
}

struct Outcome {
  enum Kind { OK, VIOLATION, CRASH } kind{ OK };
  Violation v;
  uint64_t hash{ 0 };
  uint64_t seqHash{ 0 };
  int steps{ 0 };
  bool nontrivial{ false };
  int faults{ 0 };
  std::string Class() const { return kind == OK ? "ok" : v.Class(); }
};

// ---------------------------------------------------------------- executing one run in-process
struct RunIO {            // optional streaming of progress (used by forked execution)
  int fd{ -1 };
  void Line(const std::string& s) const { if (fd >= 0) { std::string t = s + "\n"; (void)!write(fd, t.data(), t.size()); } }
};

inline uint64_t RunSeedFor(uint64_t verifSeed, uint64_t runIndex, const std::string& engine, const std::string& focus) {
  return Mix(Mix(HashStr(engine), HashStr(focus)), Mix(verifSeed, runIndex));
}

inline void InstallHooks(Ctx& c) {
  CurrentCtx() = &c;
  auto& h = ccl::verif::GetHooks();
  h.nextUID = [] { return CurrentCtx()->NextUid(); };
  h.cacheLimit = static_cast<uint32_t>(c.C("cache_limit", 0));
  h.maxIterations = static_cast<int32_t>(c.C("max_iterations", 0));
}
inline void RemoveHooks() {
  auto& h = ccl::verif::GetHooks();
  h.nextUID = nullptr; h.cacheLimit = 0; h.maxIterations = 0;
  CurrentCtx() = nullptr;
}

// Executes plan (generate==false) or generates online (generate==true, appending to plan.ops).
inline Outcome ExecuteRun(Engine& e, Plan& plan, bool generate, Stats* stats, std::vector<uint64_t>* states,
                          std::vector<uint64_t>* grams, const RunIO& io, bool trace = false) {
  Ctx c;
  c.runSeed = plan.runSeed; c.runIndex = plan.runIndex; c.focus = plan.focus; c.thorough = plan.thorough;
  c.replaying = !generate; c.trace = trace;
  c.cfg = plan.cfg; c.avoid = plan.avoid;
  c.gen.Seed(Mix(plan.runSeed, 0x67656e)); c.sched.Seed(Mix(plan.runSeed, 0x736368));
  c.stats = stats; c.states = states; c.grams = grams;
  InstallHooks(c);
  Outcome out;
  const int maxSteps = static_cast<int>(c.C("steps", 40));
  e.Begin(c);
  size_t idx = 0;
  while (!c.Failed()) {
    Op op;
    if (generate) {
      if (c.step >= maxSteps) break;
      c.curOp = -2 - c.step;       // identifiers drawn during generation (should not happen) get their own stream
      if (!e.GenOp(c, op)) break;
      op.id = c.step;
      plan.ops.push_back(op);
      if (io.fd >= 0) io.Line("O " + ToJson(op).dump());
    } else {
      if (idx >= plan.ops.size()) break;
      op = plan.ops[idx];
    }
    if (io.fd >= 0) io.Line("P " + std::to_string(idx));
    if (trace) fprintf(stderr, "[%d] %s\n", c.step, Brief(op).c_str());
    c.curOp = op.id; c.uidK = 0;
    const uint64_t kh = HashStr(op.kind);
    c.kindSeqHash = Mix(c.kindSeqHash, kh);
    if (grams) grams->push_back(Mix(Mix(c.k1, c.k2), kh));
    c.k1 = c.k2; c.k2 = kh;
    c.Count("op." + op.kind);
    e.Exec(c, op);
    ++c.step; ++idx;
  }
  if (!c.Failed()) { c.curOp = 1 << 28; c.uidK = 0; e.End(c); }
  e.Destroy();
  RemoveHooks();
  out.hash = c.eventHash; out.seqHash = c.kindSeqHash; out.steps = c.step; out.nontrivial = c.nontrivial; out.faults = c.faultsFired;
  if (c.violation) { out.kind = Outcome::VIOLATION; out.v = *c.violation; }
  return out;
}

// ---------------------------------------------------------------- forked execution (crash capture)
struct Paths {
  std::string home;   // directory of the /verif tree in use
  std::string Out() const { return home + "/out"; }
  std::string Tmp() const { return home + "/out/tmp"; }
  std::string Replays() const { return home + "/out/replays"; }
};
inline void MkdirP(const std::string& p) {
  std::string cur;
  for (size_t i = 0; i <= p.size(); ++i) {
    if (i == p.size() || p[i] == '/') { if (!cur.empty()) mkdir(cur.c_str(), 0755); }
    if (i < p.size()) cur += p[i];
  }
}
inline std::string ReadFile(const std::string& p) { std::ifstream f(p, std::ios::binary); std::stringstream ss; ss << f.rdbuf(); return ss.str(); }

inline std::string DeathKindFromStderr(const std::string& err, int status) {
  auto grab = [&](const std::string& key, size_t maxLen) -> std::string {
    auto p = err.find(key);
    if (p == std::string::npos) return {};
    p += key.size();
    auto e = err.find_first_of("\n", p);
    std::string s = err.substr(p, std::min(maxLen, (e == std::string::npos ? err.size() : e) - p));
    return s;
  };
  if (auto s = grab("ERROR: AddressSanitizer: ", 60); !s.empty()) {
    auto sp = s.find_first_of(" :"); return "asan:" + s.substr(0, sp);
  }
  if (auto s = grab("VERIF-TERMINATE: ", 80); !s.empty()) return "terminate:" + s;
  if (err.find("VERIF-TIMEOUT: ") != std::string::npos) { auto s = grab("VERIF-TIMEOUT: ", 80); return s.empty() ? std::string("timeout") : "timeout:" + s; }
  if (auto s = grab("runtime error: ", 50); !s.empty()) {
    // keep the generic part of the UBSan message (drop concrete numbers)
    std::string g; for (char ch : s) { if (ch >= '0' && ch <= '9') break; g += ch; }
    while (!g.empty() && (g.back() == ' ' || g.back() == '-')) g.pop_back();
    return "ubsan:" + g;
  }
  if (WIFSIGNALED(status) && WTERMSIG(status) == SIGPROF) return "timeout";
  if (WIFSIGNALED(status)) return "signal:" + std::to_string(WTERMSIG(status));
  if (WIFEXITED(status)) return "exit:" + std::to_string(WEXITSTATUS(status));
  return "unknown";
}

[[noreturn]] inline void TerminateHandler() {
  const char* what = "unknown";
  std::string buf;
  if (auto ep = std::current_exception()) {
    try { std::rethrow_exception(ep); }
    catch (const std::exception& ex) { buf = std::string(typeid(ex).name()) + ": " + ex.what(); what = buf.c_str(); }
    catch (...) { what = "non-std exception"; }
  }
  fprintf(stderr, "VERIF-TERMINATE: %s\n", what);
  fflush(stderr);
  _exit(78);
}

// a single run (or a single replayed plan) that does not finish within this many seconds is reported as a fault ("timeout")
inline int& WatchdogFd() { static int fd = -1; return fd; }
inline void OnAlarm(int) {
  const char* tag = TimeoutTag(); char buf[160]; size_t n = 0;
  if (WatchdogFd() >= 0) { char w[120]; size_t m = 0; w[m++] = 'W'; w[m++] = ' '; for (const char* p = tag; *p && m < 100; ++p) w[m++] = *p; w[m++] = '\n'; (void)!write(WatchdogFd(), w, m); }
  for (const char* p = "VERIF-TIMEOUT: "; *p; ++p) buf[n++] = *p;
  for (const char* p = tag; *p && n < 150; ++p) buf[n++] = *p;
  buf[n++] = '\n'; (void)!write(2, buf, n); _exit(79);
}
inline void ArmWatchdog(unsigned secs) {   // CPU time of this process (user+sys), far less load-dependent than wall time
  struct itimerval tv{}; tv.it_value.tv_sec = secs; setitimer(ITIMER_PROF, &tv, nullptr);
}
inline unsigned& EngineTimeout() { static unsigned v = 12; return v; }
inline unsigned RunTimeoutSecs() { static const unsigned v = [] { const char* s = getenv("VERIF_RUN_TIMEOUT"); return s ? static_cast<unsigned>(atoi(s)) : 0u; }(); return v ? v : EngineTimeout(); }

struct ForkResult {
  Outcome out;
  std::vector<Op> ops;       // ops streamed by the child (generate mode) or copy of the plan prefix
  int lastStarted{ -1 };     // index of the last op whose execution started
  std::string death;         // for crashes
  std::string stderrTail;
};

// Runs the plan (or generates it) in a forked child of this (engine-clean) process.
inline ForkResult RunForked(Engine& e, const Plan& planIn, bool generate, const Paths& paths, bool keepStderr = false) {
  ForkResult fr;
  MkdirP(paths.Tmp());
  const std::string errFile = paths.Tmp() + "/stderr." + std::to_string(getpid());
  int pfd[2];
  if (pipe(pfd) != 0) { perror("pipe"); exit(2); }
  fflush(stdout); fflush(stderr);
  const pid_t pid = fork();
  if (pid < 0) { perror("fork"); exit(2); }
  if (pid == 0) {
    close(pfd[0]);
    const int ef = open(errFile.c_str(), O_WRONLY | O_CREAT | O_TRUNC, 0644);
    if (ef >= 0) { dup2(ef, 2); close(ef); }
    std::set_terminate(TerminateHandler);
    Plan plan = planIn;
    if (generate) plan.ops.clear();
    RunIO io{ pfd[1] };
    signal(SIGPROF, OnAlarm);
    ArmWatchdog(RunTimeoutSecs());
    Outcome o = ExecuteRun(e, plan, generate, nullptr, nullptr, nullptr, io, false);
    ArmWatchdog(0);
    json r; r["kind"] = static_cast<int>(o.kind); r["hash"] = o.hash; r["steps"] = o.steps;
    if (o.kind == Outcome::VIOLATION) { r["p"] = o.v.property; r["o"] = o.v.oracle; r["t"] = o.v.trigger; r["d"] = o.v.detail; r["s"] = o.v.step; }
    io.Line("R " + r.dump(-1, ' ', false, json::error_handler_t::replace));
    _exit(0);
  }
  close(pfd[1]);
  std::string buf; char tmp[65536];
  for (;;) { const ssize_t n = read(pfd[0], tmp, sizeof tmp); if (n > 0) buf.append(tmp, static_cast<size_t>(n)); else if (n == 0) break; else if (errno != EINTR) break; }
  close(pfd[0]);
  int status = 0; while (waitpid(pid, &status, 0) < 0 && errno == EINTR) {}
  bool gotR = false;
  size_t pos = 0;
  while (pos < buf.size()) {
    auto nl = buf.find('\n', pos); if (nl == std::string::npos) break;     // incomplete last line is ignored
    const std::string line = buf.substr(pos, nl - pos); pos = nl + 1;
    if (line.size() < 2) continue;
    try {
      if (line[0] == 'O') fr.ops.push_back(OpFromJson(json::parse(line.substr(2))));
      else if (line[0] == 'P') fr.lastStarted = std::stoi(line.substr(2));
      else if (line[0] == 'R') {
        auto r = json::parse(line.substr(2)); gotR = true;
        fr.out.kind = static_cast<Outcome::Kind>(r["kind"].get<int>()); fr.out.hash = r["hash"].get<uint64_t>(); fr.out.steps = r["steps"].get<int>();
        if (fr.out.kind == Outcome::VIOLATION) { fr.out.v = Violation{ r["p"], r["o"], r["t"], r["d"], r["s"] }; }
      }
    } catch (const std::exception&) {}
  }
  if (!generate) fr.ops = planIn.ops;
  if (!gotR && DeathKindFromStderr(ReadFile(errFile), status) == "timeout:evaluation") {
    // the CPU-time watchdog fired while the engine was inside a legitimately unbounded computation (evaluation of a
    // generated expression): resource exhaustion of the simulation, not a finding
    fr.out.kind = Outcome::OK; fr.death = "timeout:evaluation";
  } else if (!gotR) {
    fr.out.kind = Outcome::CRASH;
    const std::string err = ReadFile(errFile);
    fr.death = DeathKindFromStderr(err, status);
    fr.stderrTail = err.substr(0, std::min<size_t>(err.size(), 3000));
    const int fatal = fr.lastStarted;
    Op fatalOp; if (fatal >= 0 && fatal < static_cast<int>(fr.ops.size())) fatalOp = fr.ops[static_cast<size_t>(fatal)]; else fatalOp.kind = "<begin>";
    fr.out.v.property = e.CrashProperty(planIn.focus, fatalOp);
    fr.out.v.oracle = "fault";
    fr.out.v.trigger = fatalOp.kind + "/" + fr.death;
    fr.out.v.step = fatal;
    fr.out.v.detail = fr.death + " while executing " + Brief(fatalOp);
    if (fatal >= 0 && fatal + 1 < static_cast<int>(fr.ops.size())) fr.ops.resize(static_cast<size_t>(fatal) + 1);
  } else if (keepStderr) {
    fr.stderrTail = ReadFile(errFile).substr(0, 3000);
  }
  unlink(errFile.c_str());
  return fr;
}

// ---------------------------------------------------------------- minimiser (fork per candidate)
struct Minimiser {
  Engine& e; const Paths& paths; Plan base; std::string cls; int budget; int reruns{ 0 }; double t0{ NowS() }; double wallBudget{ 120.0 };
  Minimiser(Engine& e, const Paths& p, Plan base, std::string cls, int budget) : e{ e }, paths{ p }, base{ std::move(base) }, cls{ std::move(cls) }, budget{ budget } {}

  bool Still(const std::vector<Op>& ops) {
    if (reruns >= budget || NowS() - t0 > wallBudget) { reruns = budget; return false; }
    ++reruns;
    Plan p = base; p.ops = ops;
    auto fr = RunForked(e, p, false, paths);
    return fr.out.kind != Outcome::OK && fr.out.v.Class() == cls;
  }

  std::vector<Op> Run() {
    std::vector<Op> cur = base.ops;
    // ddmin: remove chunks
    size_t chunk = std::max<size_t>(1, cur.size() / 2);
    while (chunk >= 1 && reruns < budget && cur.size() > 1) {
      bool removed = false;
      for (size_t start = 0; start < cur.size() && reruns < budget;) {
        std::vector<Op> cand;
        for (size_t i = 0; i < cur.size(); ++i) if (i < start || i >= start + chunk) cand.push_back(cur[i]);
        if (cand.size() < cur.size() && !cand.empty() && Still(cand)) { cur = cand; removed = true; } else start += chunk;
      }
      if (!removed) { if (chunk == 1) break; chunk = std::max<size_t>(1, chunk / 2); }
    }
    // per-op simplification: integers toward 0, strings shorter
    for (size_t i = 0; i < cur.size() && reruns < budget; ++i) {
      for (size_t a = 0; a < cur[i].n.size() && reruns < budget; ++a) {
        for (int64_t cand : { int64_t{ 0 }, cur[i].n[a] / 2, cur[i].n[a] - 1 }) {
          if (cand == cur[i].n[a] || cand < 0 || std::llabs(cand) >= std::llabs(cur[i].n[a])) continue;
          auto t = cur; t[i].n[a] = cand;
          if (Still(t)) { cur = t; break; }
        }
      }
      for (size_t a = cur[i].s.size(); a-- > 0 && reruns < budget && cur[i].s.size() > 1;) {   // drop whole string arguments
        auto t = cur; t[i].s.erase(t[i].s.begin() + static_cast<long>(a));
        if (Still(t)) cur = t;
      }
      for (size_t a = 0; a < cur[i].s.size() && reruns < budget; ++a) {
        bool progress = true;
        while (progress && reruns < budget && !cur[i].s[a].empty()) {
          progress = false;
          const std::string& s = cur[i].s[a];
          std::vector<std::string> cands;
          cands.push_back("");
          size_t half = s.size() / 2; while (half > 0 && half < s.size() && (static_cast<unsigned char>(s[half]) & 0xC0) == 0x80) --half;   // cut at a code point boundary
          cands.push_back(s.substr(0, half));
          cands.push_back(s.substr(half));
          for (const auto& cs : cands) {
            if (cs.size() >= s.size()) continue;
            auto t = cur; t[i].s[a] = cs;
            if (Still(t)) { cur = t; progress = true; break; }
          }
        }
      }
    }
    return cur;
  }
};

// ---------------------------------------------------------------- known findings
inline std::vector<KnownFinding> LoadKnownFindings(const std::string& home) {
  std::vector<KnownFinding> r;
  std::ifstream f(home + "/known_findings.json");
  if (!f) return r;
  try {
    json j = json::parse(f);
    for (auto& x : j) {
      KnownFinding k;
      k.id = x.value("id", ""); k.property = x.value("property", ""); k.oracle = x.value("oracle_id", "");
      k.trigger = x.value("trigger", ""); k.status = x.value("status", "open"); k.what = x.value("what", "");
      r.push_back(k);
    }
  } catch (const std::exception& ex) { fprintf(stderr, "known_findings.json unreadable: %s\n", ex.what()); exit(2); }
  return r;
}
inline const KnownFinding* MatchOpen(const std::vector<KnownFinding>& k, const Violation& v) {
  for (auto& x : k) if (x.status == "open" && x.Matches(v)) return &x;
  return nullptr;
}

// ---------------------------------------------------------------- driver
struct Args {
  std::string focus, tier{ "quick" }, replay, evidence, home{ "/verif" }, dumpHashes;
  uint64_t seed{ 1 }, runs{ 0 }, firstRun{ 0 };
  int workers{ 16 }, maxSecs{ 0 };
  bool trace{ false }, noMinimise{ false }, listOnly{ false };
};


struct WorkerSample { size_t nops{ 0 }; int faults{ 0 }; json plan; bool set{ false }; };

inline void SpillSet(const std::string& path, const std::unordered_set<uint64_t>& s) {
  FILE* f = fopen(path.c_str(), "wb"); if (!f) return;
  std::vector<uint64_t> v(s.begin(), s.end());
  if (!v.empty()) fwrite(v.data(), sizeof(uint64_t), v.size(), f);
  fclose(f);
}
inline void LoadSetInto(const std::string& path, std::unordered_set<uint64_t>& s, size_t cap) {
  FILE* f = fopen(path.c_str(), "rb"); if (!f) return;
  uint64_t buf[4096]; size_t n;
  while ((n = fread(buf, sizeof(uint64_t), 4096, f)) > 0) for (size_t i = 0; i < n && s.size() < cap; ++i) s.insert(buf[i]);
  fclose(f); unlink(path.c_str());
}

inline Plan MakePlan(Engine& e, const Args& a, uint64_t runIndex, const std::vector<KnownFinding>& kf) {
  Plan p; p.engine = e.Name(); p.focus = a.focus; p.verifSeed = a.seed; p.runIndex = runIndex; p.thorough = a.tier == "thorough";
  p.runSeed = RunSeedFor(a.seed, runIndex, p.engine, p.focus);
  Rng rc(Mix(p.runSeed, 0x636667));
  p.cfg = e.GenCfg(rc, a.focus, p.thorough);
  // ~70 % of runs steer away from each open known finding so that depth is not starved
  for (auto& k : kf) if (k.status == "open" && rc.Pct(70)) p.avoid.push_back(k.id);
  return p;
}

struct WorkerCtl { pid_t pid{ -1 }; int fd{ -1 }; std::string buf; int64_t current{ -1 }; bool done{ false }; uint64_t nextStart{ 0 }; };

inline int ReplayMain(Engine& e, const Args& a, const Paths& paths) {
  json j;
  try { j = json::parse(ReadFile(a.replay)); } catch (const std::exception& ex) { fprintf(stderr, "cannot read replay file: %s\n", ex.what()); return 2; }
  Plan p = PlanFromJson(j);
  if (p.engine != e.Name()) { fprintf(stderr, "replay file is for engine %s\n", p.engine.c_str()); return 2; }
  if (a.trace) {
    Plan q = p; RunIO io;
    Outcome o = ExecuteRun(e, q, false, nullptr, nullptr, nullptr, io, true);
    printf("trace outcome: %s hash=%016" PRIx64 " %s\n", o.Class().c_str(), o.hash, o.v.detail.c_str());
    return o.kind == Outcome::OK ? 0 : 1;
  }
  auto fr = RunForked(e, p, false, paths, true);
  const auto kf = LoadKnownFindings(paths.home);
  if (fr.out.kind == Outcome::OK) { printf("REPLAY ok (no violation) hash=%016" PRIx64 "\n", fr.out.hash); return 0; }
  printf("REPLAY class=%s step=%d hash=%016" PRIx64 "\n  detail: %s\n", fr.out.v.Class().c_str(), fr.out.v.step, fr.out.hash, fr.out.v.detail.c_str());
  if (fr.out.kind == Outcome::CRASH && !fr.stderrTail.empty()) printf("  stderr: %s\n", fr.stderrTail.substr(0, 1500).c_str());
  if (auto k = MatchOpen(kf, fr.out.v)) { printf("KNOWN-FINDING: property=%s %s [%s]\n", k->property.c_str(), k->what.c_str(), k->id.c_str()); return 0; }
  printf("VIOLATION property=%s replay=%s\n", fr.out.v.property.c_str(), a.replay.c_str());
  return 1;
}

int Main(int argc, char** argv, Engine& e) {
  Args a;
  if (const char* s = getenv("VERIF_SEED")) a.seed = strtoull(s, nullptr, 10);
  if (const char* s = getenv("VERIF_TIER")) a.tier = s;
  for (int i = 1; i < argc; ++i) {
    std::string k = argv[i];
    auto val = [&]() -> std::string { if (i + 1 >= argc) { fprintf(stderr, "missing value for %s\n", k.c_str()); exit(2); } return argv[++i]; };
    if (k == "--property") a.focus = val();
    else if (k == "--tier") a.tier = val();
    else if (k == "--seed") a.seed = strtoull(val().c_str(), nullptr, 10);
    else if (k == "--runs") a.runs = strtoull(val().c_str(), nullptr, 10);
    else if (k == "--first-run") a.firstRun = strtoull(val().c_str(), nullptr, 10);
    else if (k == "--workers") a.workers = atoi(val().c_str());
    else if (k == "--max-secs") a.maxSecs = atoi(val().c_str());
    else if (k == "--replay") a.replay = val();
    else if (k == "--evidence") a.evidence = val();
    else if (k == "--home") a.home = val();
    else if (k == "--dump-hashes") a.dumpHashes = val();
    else if (k == "--trace") a.trace = true;
    else if (k == "--no-minimise") a.noMinimise = true;
    else { fprintf(stderr, "unknown argument %s\n", k.c_str()); return 2; }
  }
  EngineTimeout() = e.WatchdogSecs();
  Paths paths{ a.home };
  MkdirP(paths.Tmp()); MkdirP(paths.Replays());
  std::set_terminate(TerminateHandler);
  if (!a.replay.empty()) return ReplayMain(e, a, paths);

  const auto props = e.Properties();
  if (std::find(props.begin(), props.end(), a.focus) == props.end()) { fprintf(stderr, "engine %s does not serve property '%s'\n", e.Name(), a.focus.c_str()); return 2; }
  const bool thorough = a.tier == "thorough";
  const uint64_t totalRuns = a.runs ? a.runs : e.DefaultRuns(a.focus, thorough);
  const int W = std::max(1, std::min<int>(a.workers, static_cast<int>(std::max<uint64_t>(1, totalRuns))));
  const int maxSecs = a.maxSecs ? a.maxSecs : (thorough ? 1500 : 150);
  const auto kf = LoadKnownFindings(paths.home);
  const double t0 = NowS();
  const std::string tag = std::to_string(getpid());

  printf("engine=%s property=%s tier=%s VERIF_SEED=%" PRIu64 " runs=%" PRIu64 " workers=%d\n", e.Name(), a.focus.c_str(), a.tier.c_str(), a.seed, totalRuns, W);
  fflush(stdout);

  // per-run records kept by the parent
  std::map<uint64_t, uint64_t> runHash;                 // runIndex -> event hash
  std::map<uint64_t, uint64_t> recheckHash;             // sampled re-execution in another worker
  std::set<std::string> kfHit;
  std::map<std::string, uint64_t> metOther;
  Stats total;
  std::vector<json> samples;
  uint64_t runsDone = 0, nontrivialRuns = 0, stepsDone = 0;
  std::vector<std::pair<uint64_t, std::string>> pendingViolations;   // (run, class) first unknown violation reported by workers
  std::vector<uint64_t> crashedRuns;
  std::set<uint64_t> watchdogRuns;
  std::map<uint64_t, std::string> watchdogTag;   // state tag reported by the watchdog handler of the worker   // runs whose worker was stopped by the CPU-time watchdog (may not reproduce exactly at the threshold)
  bool stopEarly = false;

  auto spawn = [&](int w, uint64_t startRun, WorkerCtl& ctl) {
    int pfd[2]; if (pipe(pfd) != 0) { perror("pipe"); exit(2); }
    fflush(stdout); fflush(stderr);
    pid_t pid = fork();
    if (pid < 0) { perror("fork"); exit(2); }
    if (pid == 0) {
      close(pfd[0]);
      // workers are quiet on stderr unless tracing (sanitizer reports are re-captured by the parent's forked re-run)
      if (!a.trace) { int dn = open("/dev/null", O_WRONLY); if (dn >= 0) { dup2(dn, 2); close(dn); } }
      RunIO io{ pfd[1] };
      signal(SIGPROF, OnAlarm); WatchdogFd() = pfd[1];
      Stats st; std::vector<uint64_t> stv, grv;
      std::unordered_set<uint64_t> states, grams, seqs;
      const size_t cap = 1500000;
      WorkerSample sShort, sLong, sFault;
      uint64_t nNontrivial = 0, nRuns = 0, nSteps = 0;
      auto oneRun = [&](uint64_t r, bool recheck) {
        Plan p = MakePlan(e, a, r, kf);
        if (!recheck) io.Line("B " + std::to_string(r));
        stv.clear(); grv.clear();
        Stats dummy;
        ArmWatchdog(RunTimeoutSecs());
        Outcome o = ExecuteRun(e, p, true, recheck ? &dummy : &st, recheck ? nullptr : &stv, recheck ? nullptr : &grv, RunIO{}, a.trace);
        ArmWatchdog(0);
        if (recheck) { io.Line("C " + std::to_string(r) + " " + std::to_string(o.hash)); return; }
        ++nRuns; nSteps += static_cast<uint64_t>(o.steps);
        for (auto h : stv) if (states.size() < cap) states.insert(h);
        for (auto h : grv) if (grams.size() < cap) grams.insert(h);
        if (o.nontrivial) { ++nNontrivial; if (seqs.size() < cap) seqs.insert(o.seqHash); }
        if (o.nontrivial && o.kind == Outcome::OK) {
          auto consider = [&](WorkerSample& s, bool better) { if (!s.set || better) { s.set = true; s.nops = p.ops.size(); s.faults = o.faults; json pj = PlanToJson(p); pj["steps_executed"] = o.steps; pj["faults_fired"] = o.faults; s.plan = pj; } };
          consider(sShort, p.ops.size() < sShort.nops && p.ops.size() >= 3);
          consider(sLong, p.ops.size() > sLong.nops);
          consider(sFault, o.faults > sFault.faults);
        }
        std::string line = "E " + std::to_string(r) + " " + std::to_string(o.hash) + " " + std::to_string(o.steps);
        io.Line(line);
        if (o.kind == Outcome::VIOLATION) {
          json v; v["run"] = r; v["p"] = o.v.property; v["o"] = o.v.oracle; v["t"] = o.v.trigger; v["d"] = o.v.detail; v["s"] = o.v.step;
          io.Line("V " + v.dump(-1, ' ', false, json::error_handler_t::replace));
        }
      };
      int flushSeq = 0;
      auto flush = [&](bool final) {
        const std::string base = paths.Tmp() + "/" + tag + ".w" + std::to_string(w) + "." + std::to_string(getpid()) + "." + std::to_string(flushSeq++);
        SpillSet(base + ".states", states); SpillSet(base + ".grams", grams); SpillSet(base + ".seqs", seqs);
        json s; s["stats"] = st.c; s["nontrivial"] = nNontrivial; s["runs"] = nRuns; s["steps"] = nSteps; s["spill"] = base; s["final"] = final;
        json sm = json::array();
        if (final) for (auto* x : { &sShort, &sLong, &sFault }) if (x->set) sm.push_back(x->plan);
        s["samples"] = sm;
        io.Line("S " + s.dump(-1, ' ', false, json::error_handler_t::replace));
        st.c.clear(); states.clear(); grams.clear(); seqs.clear(); nNontrivial = 0; nRuns = 0; nSteps = 0;
      };
      uint64_t sinceFlush = 0;
      for (uint64_t r = startRun; r < a.firstRun + totalRuns; r += static_cast<uint64_t>(W)) {
        if (NowS() - t0 > maxSecs) break;
        oneRun(r, false);
        if (++sinceFlush >= 20) { flush(false); sinceFlush = 0; }
      }
      // determinism re-check: re-execute a 2 % sample of the neighbour worker's runs in this process
      if (W > 1 && startRun < a.firstRun + static_cast<uint64_t>(W)) {
        const uint64_t nb = a.firstRun + (static_cast<uint64_t>(w) + 1) % static_cast<uint64_t>(W);
        uint64_t k = 0;
        for (uint64_t r = nb; r < a.firstRun + totalRuns; r += static_cast<uint64_t>(W), ++k) {
          if (k % 50 != 7) continue;
          if (NowS() - t0 > maxSecs * 1.1) break;
          oneRun(r, true);
        }
      }
      flush(true);
#ifdef VERIF_COVERAGE
      __gcov_dump();   // reach measurement build (tools/reach.sh): workers leave through _exit
#endif
      _exit(0);
    }
    close(pfd[1]);
    ctl.pid = pid; ctl.fd = pfd[0]; ctl.buf.clear(); ctl.current = -1; ctl.done = false;
  };

  std::vector<WorkerCtl> ws(static_cast<size_t>(W));
  std::unordered_set<uint64_t> allStates, allGrams, allSeqs;
  const size_t capAll = 6000000;
  for (int w = 0; w < W; ++w) spawn(w, a.firstRun + static_cast<uint64_t>(w), ws[static_cast<size_t>(w)]);

  auto handleLine = [&](int w, WorkerCtl& ctl, const std::string& line) {
    if (line.size() < 2) return;
    const char t = line[0]; const std::string rest = line.substr(2);
    if (t == 'B') ctl.current = static_cast<int64_t>(strtoull(rest.c_str(), nullptr, 10));
    else if (t == 'E') {
      uint64_t r, h; int st; if (sscanf(rest.c_str(), "%" SCNu64 " %" SCNu64 " %d", &r, &h, &st) == 3) { runHash[r] = h; }
      ctl.current = -1;
    } else if (t == 'W') {
      if (ctl.current >= 0) watchdogTag[static_cast<uint64_t>(ctl.current)] = rest;
    } else if (t == 'C') {
      uint64_t r, h; if (sscanf(rest.c_str(), "%" SCNu64 " %" SCNu64, &r, &h) == 2) recheckHash[r] = h;
    } else if (t == 'V') {
      try {
        auto v = json::parse(rest);
        Violation vi{ v["p"], v["o"], v["t"], v["d"], v["s"] };
        if (vi.property != a.focus) { metOther[vi.Class()]++; metOther["example_run:" + vi.Class()] = v["run"].get<uint64_t>(); }
        else if (auto k = MatchOpen(kf, vi)) { kfHit.insert(k->id); total.Add("known." + k->id); }
        else { pendingViolations.emplace_back(v["run"].get<uint64_t>(), vi.Class()); stopEarly = true; }
      } catch (const std::exception&) {}
    } else if (t == 'S') {
      try {
        auto s = json::parse(rest);
        Stats st; st.c = s["stats"].get<std::map<std::string, uint64_t>>(); total.Merge(st);
        nontrivialRuns += s["nontrivial"].get<uint64_t>(); runsDone += s["runs"].get<uint64_t>(); stepsDone += s["steps"].get<uint64_t>();
        const std::string base = s["spill"];
        LoadSetInto(base + ".states", allStates, capAll); LoadSetInto(base + ".grams", allGrams, capAll); LoadSetInto(base + ".seqs", allSeqs, capAll);
        for (auto& x : s["samples"]) samples.push_back(x);
        if (s.value("final", true)) ctl.done = true;
      } catch (const std::exception& ex) { fprintf(stderr, "bad stats line from worker %d: %s\n", w, ex.what()); }
    }
  };

  int live = W; bool gaveUp = false;
  while (live > 0) {
    std::vector<pollfd> pf; std::vector<int> idx;
    for (int w = 0; w < W; ++w) if (ws[static_cast<size_t>(w)].fd >= 0) { pf.push_back({ ws[static_cast<size_t>(w)].fd, POLLIN, 0 }); idx.push_back(w); }
    if (pf.empty()) break;
    const int pr = poll(pf.data(), pf.size(), 1000);
    if (pr < 0 && errno != EINTR) break;
    for (size_t i = 0; i < pf.size(); ++i) {
      if (!(pf[i].revents & (POLLIN | POLLHUP | POLLERR))) continue;
      const int w = idx[i]; auto& ctl = ws[static_cast<size_t>(w)];
      char tmp[65536]; const ssize_t n = read(ctl.fd, tmp, sizeof tmp);
      if (n > 0) {
        ctl.buf.append(tmp, static_cast<size_t>(n));
        size_t pos = 0;
        for (;;) { auto nl = ctl.buf.find('\n', pos); if (nl == std::string::npos) break; handleLine(w, ctl, ctl.buf.substr(pos, nl - pos)); pos = nl + 1; }
        ctl.buf.erase(0, pos);
      } else if (n == 0 || (n < 0 && errno != EINTR && errno != EAGAIN)) {
        close(ctl.fd); ctl.fd = -1;
        int status = 0; while (waitpid(ctl.pid, &status, 0) < 0 && errno == EINTR) {}
        --live;
        if (!ctl.done && !stopEarly) {
          // worker died in run ctl.current: remember and restart after it
          if (ctl.current >= 0) {
            crashedRuns.push_back(static_cast<uint64_t>(ctl.current));
            if (WIFEXITED(status) && WEXITSTATUS(status) == 79) watchdogRuns.insert(static_cast<uint64_t>(ctl.current));
            const uint64_t next = static_cast<uint64_t>(ctl.current) + static_cast<uint64_t>(W);
            // benign watchdog stops (resource exhaustion inside an evaluation) do not count towards the give-up limit
            size_t hard = 0; for (auto r : crashedRuns) if (!(watchdogTag.count(r) && watchdogTag[r] == "evaluation")) ++hard;
            if (hard >= 200) gaveUp = true;
            if (next < a.firstRun + totalRuns && NowS() - t0 < maxSecs && hard < 200) { spawn(w, next, ctl); ++live; }
          } else if (WIFEXITED(status) && WEXITSTATUS(status) == 79) {
            total.Add("watchdog_stop_during_determinism_recheck");   // a slow run of the re-executed sample hit the CPU watchdog: the rest of this worker's sample is skipped
          } else if (!WIFEXITED(status) || WEXITSTATUS(status) != 0) {
            fprintf(stderr, "worker %d died outside a run (status %d)\n", w, status);
          }
        }
      }
    }
    if (stopEarly) {
      for (auto& ctl : ws) if (ctl.fd >= 0) { kill(ctl.pid, SIGKILL); close(ctl.fd); ctl.fd = -1; int st; waitpid(ctl.pid, &st, 0); }
      break;
    }
  }
  if (stopEarly) {   // remove spill files of killed workers, if any
    (void)!system(("rm -f " + paths.Tmp() + "/" + tag + ".w* 2>/dev/null").c_str());
  }

  // ---- triage of crashes and violations (in the parent, fork per execution)
  int exitCode = 0;
  std::vector<std::string> violationLines;
  std::set<std::string> reportedClasses;
  uint64_t machineryFaults = 0;
  auto triage = [&](uint64_t run, bool expectCrash) {
    if (expectCrash && watchdogTag.count(run) && watchdogTag[run] == "evaluation") { total.Add("benign_watchdog_stop_inside_evaluation"); return; }
    if (expectCrash && watchdogTag.count(run)) {
      // a run stopped by the watchdog in a known slow state class is classified from the tag without re-executing it
      Violation v{ e.CrashProperty(a.focus, Op{}), "fault", "?/timeout:" + watchdogTag[run], "watchdog", -1 };
      if (v.property != a.focus) { metOther[v.Class()]++; metOther["example_run:" + v.Class()] = run; return; }
      if (auto k = MatchOpen(kf, v)) { kfHit.insert(k->id); total.Add("known." + k->id); return; }
    }
    Plan p = MakePlan(e, a, run, kf);
    auto fr = RunForked(e, p, true, paths);
    if (fr.out.kind == Outcome::OK) {
      if (expectCrash && watchdogRuns.count(run)) { total.Add("slow_run_at_watchdog_threshold_not_reproduced"); }
      else if (expectCrash) { fprintf(stderr, "MACHINERY: run %" PRIu64 " crashed in a worker but not when re-executed\n", run); ++machineryFaults; }
      else { fprintf(stderr, "MACHINERY: run %" PRIu64 " violated in a worker but not when re-executed\n", run); ++machineryFaults; }
      return;
    }
    const Violation v0 = fr.out.v;
    if (v0.property != a.focus) { metOther[v0.Class()]++; metOther["example_run:" + v0.Class()] = run; return; }
    if (auto k = MatchOpen(kf, v0)) { kfHit.insert(k->id); total.Add("known." + k->id); return; }
    if (reportedClasses.count(v0.Class())) return;
    reportedClasses.insert(v0.Class());
    p.ops = fr.ops;
    const size_t before = p.ops.size();
    int reruns = 0;
    if (!a.noMinimise) { Minimiser m(e, paths, p, v0.Class(), 400); p.ops = m.Run(); reruns = m.reruns; }
    // final execution of the minimised plan, twice (same-plan-twice hash match)
    auto f1 = RunForked(e, p, false, paths), f2 = RunForked(e, p, false, paths);
    auto unstable = [&] { return f1.out.kind == Outcome::OK || f1.out.v.Class() != v0.Class() || f2.out.kind != f1.out.kind || f2.out.hash != f1.out.hash; };
    if (unstable() && p.ops.size() != fr.ops.size()) {
      // the minimised plan is not stable (e.g. undefined behaviour whose effect depends on what surrounds it): fall back to the recorded, unminimised plan
      fprintf(stderr, "note: minimised plan for run %" PRIu64 " is not stable, falling back to the recorded plan\n", run);
      p.ops = fr.ops; reruns = -reruns; f1 = RunForked(e, p, false, paths); f2 = RunForked(e, p, false, paths);
    }
    if (unstable()) {
      fprintf(stderr, "MACHINERY: minimised plan for run %" PRIu64 " does not reproduce deterministically (original %s; replays %s hash %016" PRIx64 " / %s hash %016" PRIx64 ")\n", run, v0.Class().c_str(), f1.out.Class().c_str(), f1.out.hash, f2.out.Class().c_str(), f2.out.hash); ++machineryFaults; return;
    }
    json j = PlanToJson(p);
    j["oracle_id"] = v0.oracle; j["trigger"] = v0.trigger;
    j["expect"] = { { "class", v0.Class() }, { "step", f1.out.v.step }, { "event_hash", f1.out.hash }, { "detail", f1.out.v.detail } };
    j["minimised_from"] = before; j["reruns"] = reruns;
    const std::string file = paths.Replays() + "/" + a.focus + "-" + e.Name() + "-" + std::to_string(a.seed) + "-" + std::to_string(run) + ".json";
    { std::ofstream f(file); f << j.dump(1, ' ', false, json::error_handler_t::replace) << "\n"; }
    // gate: fresh process replay must reproduce
    const std::string cmd = std::string(argv[0]) + " --home " + paths.home + " --replay " + file + " > " + paths.Tmp() + "/gate." + tag + " 2>&1";
    const int rc = system(cmd.c_str());
    const std::string gateOut = ReadFile(paths.Tmp() + "/gate." + tag);
    unlink((paths.Tmp() + "/gate." + tag).c_str());
    char hx[32]; snprintf(hx, sizeof hx, "%016" PRIx64, f1.out.hash);
    if (!(WIFEXITED(rc) && WEXITSTATUS(rc) == 1) || gateOut.find("class=" + v0.Class()) == std::string::npos || (f1.out.kind == Outcome::VIOLATION && gateOut.find(hx) == std::string::npos)) {
      fprintf(stderr, "MACHINERY: fresh-process replay of %s did not reproduce (rc=%d)\n%s\n", file.c_str(), rc, gateOut.c_str()); ++machineryFaults; return;
    }
    printf("violation: %s at step %d: %s (minimised %zu -> %zu ops, %d re-runs)\n", v0.Class().c_str(), f1.out.v.step, f1.out.v.detail.c_str(), before, p.ops.size(), reruns);
    violationLines.push_back("VIOLATION property=" + a.focus + " replay=" + file);
    exitCode = 1;
  };
  std::sort(crashedRuns.begin(), crashedRuns.end());
  for (auto r : crashedRuns) { if (reportedClasses.size() >= 3) break; triage(r, true); }
  for (auto& [r, cls] : pendingViolations) { if (reportedClasses.size() >= 3) break; triage(r, false); }
  total.Add("crashed_runs", crashedRuns.size());

  // ---- determinism recheck
  uint64_t rechecked = 0, mismatches = 0;
  for (auto& [r, h] : recheckHash) { auto it = runHash.find(r); if (it == runHash.end()) continue; ++rechecked; if (it->second != h) { ++mismatches; fprintf(stderr, "MACHINERY: run %" PRIu64 " hashed differently in two workers\n", r); } }
  if (mismatches) ++machineryFaults;

  if (!a.dumpHashes.empty()) { std::ofstream f(a.dumpHashes); for (auto& [r, h] : runHash) f << r << " " << h << "\n"; }

  // ---- evidence
  const double wall = NowS() - t0;
  for (auto& id : kfHit) for (auto& k : kf) if (k.id == id) printf("KNOWN-FINDING: property=%s %s [%s]\n", k.property.c_str(), k.what.c_str(), k.id.c_str());
  for (auto& l : violationLines) printf("%s\n", l.c_str());
  if (!a.evidence.empty()) {
    json ev;
    ev["property_id"] = a.focus; ev["tier"] = thorough ? "thorough" : "quick"; ev["seed"] = a.seed; ev["level"] = "exploration";
    json cov;
    cov["evaluations"] = runsDone;
    cov["distinct_nontrivial"] = allSeqs.size();
    cov["rule"] = e.Rule(a.focus);
    if (samples.size() > 3) {   // keep shortest, longest, most faults overall
      std::sort(samples.begin(), samples.end(), [](const json& x, const json& y) { return x["ops"].size() < y["ops"].size(); });
      std::vector<json> keep{ samples.front(), samples.back() };
      auto mf = std::max_element(samples.begin(), samples.end(), [](const json& x, const json& y) { return x.value("faults_fired", 0) < y.value("faults_fired", 0); });
      keep.push_back(*mf); samples = keep;
    }
    cov["samples"] = samples;
    cov["engine"] = e.Name();
    cov["runs_nontrivial"] = nontrivialRuns;
    cov["steps"] = stepsDone;
    cov["runs_per_hour"] = wall > 0 ? static_cast<uint64_t>(static_cast<double>(runsDone) * 3600.0 / wall) : 0;
    cov["seeds"] = { { "verif_seed", a.seed }, { "first_run", a.firstRun }, { "runs", runsDone }, { "derivation", "run_seed = H(engine, property, VERIF_SEED, run index)" } };
    cov["simulated_time"] = "not applicable: the library reads no clock; 'time' is the global step number (see steps)";
    std::map<std::string, uint64_t> ops, faults, probes, oracles, knobs, other;
    for (auto& [k, v] : total.c) {
      if (k.rfind("op.", 0) == 0) ops[k.substr(3)] = v; else if (k.rfind("fault.", 0) == 0) faults[k.substr(6)] = v;
      else if (k.rfind("probe.", 0) == 0) probes[k.substr(6)] = v; else if (k.rfind("oracle.", 0) == 0) oracles[k.substr(7)] = v;
      else if (k.rfind("knob.", 0) == 0) knobs[k.substr(5)] = v; else other[k] = v;
    }
    cov["ops"] = ops; cov["faults_fired"] = faults; cov["probes"] = probes; cov["oracle_evaluations"] = oracles; cov["knobs"] = knobs; cov["counters"] = other;
    cov["distinct_states"] = allStates.size(); cov["distinct_states_capped"] = allStates.size() >= capAll;
    cov["distinct_kind_trigrams"] = allGrams.size();
    cov["determinism_recheck"] = { { "runs_reexecuted_in_other_worker", rechecked }, { "mismatches", mismatches } };
    cov["components"] = { { "real", e.RealComponents() }, { "stub", e.StubComponents() } };
    json kfj = json::array(); for (auto& id : kfHit) kfj.push_back(id); cov["known_findings_hit"] = kfj;
    cov["met_other"] = metOther;
    cov["workers"] = W;
    ev["coverage"] = cov;
    ev["assumptions"] = e.Assumptions(a.focus);
    ev["wall_s"] = wall;
    ev["violations"] = violationLines.size();
    std::ofstream f(a.evidence); f << ev.dump(1, ' ', false, json::error_handler_t::replace) << "\n";
  }
  printf("done: runs=%" PRIu64 " nontrivial=%" PRIu64 " steps=%" PRIu64 " distinct_seq=%zu states=%zu crashes=%zu known=%zu recheck=%" PRIu64 "/%" PRIu64 " wall=%.1fs\n",
         runsDone, nontrivialRuns, stepsDone, allSeqs.size(), allStates.size(), crashedRuns.size(), kfHit.size(), rechecked - mismatches, rechecked, wall);
  if (gaveUp) printf("note: the batch stopped early after 200 crashed runs; %" PRIu64 " of %" PRIu64 " runs were executed (crash classes of other properties are listed under met_other in the evidence)\n", runsDone, totalRuns);
  if (machineryFaults && exitCode != 1) { printf("MACHINERY-FAULT count=%" PRIu64 " (exit 2)\n", machineryFaults); return 2; }
  if (machineryFaults) printf("note: %" PRIu64 " further candidate(s) could not be reproduced deterministically and are not reported; the violation(s) above passed the replay gate\n", machineryFaults);
  return exitCode;
}

} // namespace sim

// Sanitizer defaults: classify sanitizer deaths by exit code, no leak noise.
extern "C" __attribute__((used)) __attribute__((visibility("default"))) const char* __asan_default_options() {
  return "exitcode=77:quarantine_size_mb=32:detect_leaks=0:abort_on_error=0:allocator_may_return_null=1:detect_stack_use_after_return=0";
}
extern "C" __attribute__((used)) __attribute__((visibility("default"))) const char* __ubsan_default_options() {
  return "print_stacktrace=0:halt_on_error=1";
}
