#pragma once
// exprgen — type-directed generator of RSLang (MATH syntax) expressions over a view of the current schema.
// It is only a generator: no oracle assumes that what it emits is well typed.
#include "simkit.hpp"

#include "ccl/rslang/Typification.h"
#include "ccl/rslang/TypeContext.hpp"

namespace exprgen {

using sim::Rng;

struct GTy {
  enum K { ELEM, INT, TUPLE, SET } k{ INT };
  std::string base;
  std::vector<GTy> sub;
  bool operator==(const GTy& o) const { return k == o.k && base == o.base && sub == o.sub; }
  static GTy Elem(std::string b) { GTy t; t.k = ELEM; t.base = std::move(b); return t; }
  static GTy Int() { return GTy{}; }
  static GTy Set(GTy e) { GTy t; t.k = SET; t.sub = { std::move(e) }; return t; }
  static GTy Tuple(std::vector<GTy> c) { GTy t; t.k = TUPLE; t.sub = std::move(c); return t; }
  int Depth() const { int d = 0; for (auto& s : sub) d = std::max(d, s.Depth()); return d + (k == SET || k == TUPLE ? 1 : 0); }
};

inline GTy FromTypification(const ccl::rslang::Typification& t) {
  if (t.IsElement()) return t.E().baseID == "Z" ? GTy::Int() : GTy::Elem(t.E().baseID);
  if (t.IsCollection()) return GTy::Set(FromTypification(t.B().Base()));
  std::vector<GTy> c; for (const auto& x : t.T()) c.push_back(FromTypification(x));
  return GTy::Tuple(std::move(c));
}

// Domain expression: the set of all values of type t (itself an expression of type SET(t))
inline std::string Dom(const GTy& t) {
  switch (t.k) {
  case GTy::ELEM: return t.base;
  case GTy::INT: return "Z";
  case GTy::SET: return "ℬ(" + Dom(t.sub[0]) + ")";
  default: { std::string r; for (size_t i = 0; i < t.sub.size(); ++i) { if (i) r += "×"; r += t.sub[i].k == GTy::TUPLE ? "(" + Dom(t.sub[i]) + ")" : Dom(t.sub[i]); } return r; }
  }
}

struct GVar { std::string name; GTy ty; };
struct GFunc { std::string name; std::vector<GTy> args; bool logic{ false }; GTy ret; };

struct Env {
  std::vector<GVar> globals;            // typed, non-callable, value-typed globals (type of the global as an expression)
  std::vector<GFunc> funcs;             // callable globals with concrete argument types
  std::vector<std::string> baseNames;   // aliases of base/constant sets (usable as element domains)
  std::vector<std::string> allAliases;  // every alias (for dangling/forward/self references)
};

class Gen {
  Rng& r;
  const Env& env;
  std::vector<GVar> locals;
  int counter{ 0 };
  int inFlight{ 0 };
  int maxDepth;
public:
  bool siblingReuse{ false };
  int scopeEscape{ 0 };   // percent: a quantified variable is used once more right after its scope has ended (ill-scoped near miss)
  int nearMiss{ 0 };   // percent: the second operand of a relation / set operation / recursion step gets a type that differs from the first in ONE place (type-checker near miss)
private:
  static void CollectTuples(GTy& t, std::vector<GTy*>& out) { if (t.k == GTy::TUPLE) out.push_back(&t); for (auto& s : t.sub) CollectTuples(s, out); }
  GTy Perturb(const GTy& t) {
    GTy p = t; std::vector<GTy*> tuples; CollectTuples(p, tuples);
    if (!tuples.empty() && r.Pct(80)) {
      GTy* tp = r.Pick(tuples); GTy& comp = r.Pct(65) ? tp->sub.back() : tp->sub[r.Below(tp->sub.size())];
      if (comp.k == GTy::SET && r.Pct(50)) { GTy inner = comp.sub[0]; comp = inner; }
      else if (comp.k == GTy::ELEM && r.Pct(30)) comp = GTy::Int();
      else { GTy inner = comp; comp = GTy::Set(inner); }
      return p;
    }
    if (p.k == GTy::SET && r.Pct(50)) return p.sub[0];
    return GTy::Set(p);
  }
  std::string Rhs(const GTy& t, int depth) { return nearMiss > 0 && r.Pct(nearMiss) ? Expr(Perturb(t), depth) : Expr(t, depth); }

  std::string Fresh() {
    static const char* names[]{ "ξ", "σ", "α", "β", "γ", "a", "b", "t", "δ", "x" };
    // siblingReuse: the name depends only on the nesting depth, so sibling scopes bind the same name (legal) and nested scopes never do
    if (siblingReuse) return std::string(names[(locals.size() + static_cast<size_t>(inFlight++)) % 10]);
    return std::string(names[r.Below(10)]) + std::to_string(++counter);
  }
  void Push(GVar v) { locals.push_back(std::move(v)); inFlight = 0; }
  std::vector<const GVar*> VarsOf(const GTy& t) const {
    std::vector<const GVar*> v;
    for (auto& l : locals) if (l.ty == t) v.push_back(&l);
    for (auto& g : env.globals) if (g.ty == t) v.push_back(&g);
    return v;
  }
  std::vector<GTy> KnownSetTypes() const {   // element types U for which some variable has type SET(U)
    std::vector<GTy> v;
    for (auto& l : locals) if (l.ty.k == GTy::SET) v.push_back(l.ty.sub[0]);
    for (auto& g : env.globals) if (g.ty.k == GTy::SET) v.push_back(g.ty.sub[0]);
    return v;
  }

public:
  Gen(Rng& r, const Env& env, int maxDepth = 3) : r{ r }, env{ env }, maxDepth{ maxDepth } {}

  GTy RandomElemType(int depth = 0, int cut = 2) {
    const int k = static_cast<int>(r.Below(depth >= cut ? 2 : 6));
    if (k == 0 || env.baseNames.empty()) { if (env.baseNames.empty() || r.Pct(25)) return GTy::Int(); }
    if (k <= 1) return GTy::Elem(r.Pick(env.baseNames));
    if (k <= 3) return GTy::Set(RandomElemType(depth + 1, cut));
    std::vector<GTy> c; const int n = r.Range(2, 3); for (int i = 0; i < n; ++i) c.push_back(RandomElemType(depth + 1, cut));
    return GTy::Tuple(std::move(c));
  }
  GTy RandomType() {
    if (!env.funcs.empty() && r.Pct(20)) { std::vector<const GFunc*> v; for (auto& f : env.funcs) if (!f.logic) v.push_back(&f); if (!v.empty()) return r.Pick(v)->ret; }
    if (r.Pct(55)) { auto known = KnownSetTypes(); if (!known.empty()) return r.Pct(70) ? GTy::Set(r.Pick(known)) : r.Pick(known); }
    return r.Pct(75) ? GTy::Set(RandomElemType(1)) : RandomElemType(0);
  }

  // typification text for a structure definition
  std::string StructureDef() { GTy t = RandomElemType(0, r.Pct(50) ? 3 : 2);   // sometimes one level deeper: sets inside tuples inside sets
     if (t.k == GTy::ELEM || t.k == GTy::INT) t = GTy::Set(t); return Dom(t); }

  std::string Expr(const GTy& t, int depth) {
    const auto vars = VarsOf(t);
    if (!vars.empty() && (depth >= maxDepth || r.Pct(45))) return r.Pick(vars)->name;
    for (auto& f : env.funcs) if (!f.logic && f.ret == t && r.Pct(25) && depth < maxDepth) return Call(f, depth);
    if (depth >= maxDepth) return Fallback(t);
    switch (t.k) {
    case GTy::INT:
      switch (r.Below(6)) {
      case 0: return std::to_string(r.Range(0, 12));
      case 1: return "card(" + Expr(GTy::Set(RandomElemType(1)), depth + 1) + ")";
      case 2: return Par(Expr(t, depth + 1) + (r.Pct(50) ? "+" : r.Pct(50) ? "-" : "*") + Expr(t, depth + 1));
      case 3: return "debool(" + Expr(GTy::Set(t), depth + 1) + ")";
      case 4: { GTy tt = GTy::Tuple({ GTy::Int(), RandomElemType(2) }); return "pr1(" + Expr(tt, depth + 1) + ")"; }
      default: return std::to_string(r.Range(0, 3));
      }
    case GTy::ELEM:
      if (r.Pct(60)) return "debool(" + Expr(GTy::Set(t), depth + 1) + ")";
      { GTy tt = GTy::Tuple({ RandomElemType(2), t }); return "pr2(" + Expr(tt, depth + 1) + ")"; }
    case GTy::TUPLE:
      if (t.sub.size() == 2 && r.Pct(8)) {   // recursion over a pair with a tuple binder
        const std::string a = Fresh(), b = Fresh(); const std::string init = Expr(t, depth + 1);
        Push({ a, t.sub[0] }); Push({ b, t.sub[1] }); const std::string cond = Logic(depth + 1); const std::string step = Rhs(t, depth + 1); locals.pop_back(); locals.pop_back();
        return "R{(" + a + "," + b + "):=" + init + "|" + cond + "|" + step + "}";
      }
      if (r.Pct(80)) { std::string s = "("; for (size_t i = 0; i < t.sub.size(); ++i) { if (i) s += ","; s += Expr(t.sub[i], depth + 1); } return s + ")"; }
      return "debool(" + Expr(GTy::Set(t), depth + 1) + ")";
    default: break;
    }
    // SET(U)
    const GTy& u = t.sub[0];
    switch (r.Below(14)) {
    case 0: { std::string s = "{"; const int n = r.Range(1, 3); for (int i = 0; i < n; ++i) { if (i) s += ","; s += Expr(u, depth + 1); } return s + "}"; }
    case 1: case 2: { static const char* ops[]{ "∪", "∩", "\\", "∆" }; return Par(Expr(t, depth + 1) + ops[r.Below(4)] + Rhs(t, depth + 1)); }
    case 3: { const std::string v = Fresh(); const std::string dom = Expr(t, depth + 1); Push({ v, u }); std::string s = "D{" + v + "∈" + dom + "|" + Logic(depth + 1) + "}"; locals.pop_back(); return s; }
    case 4: if (u.k == GTy::SET) return "ℬ(" + Expr(u, depth + 1) + ")"; return Fallback(t);
    case 5: if (u.k == GTy::TUPLE) { std::string s; for (size_t i = 0; i < u.sub.size(); ++i) { if (i) s += "×"; const std::string f = Expr(GTy::Set(u.sub[i]), depth + 1); s += Atomic(f) ? f : "(" + f + ")"; } return Par(s); } return Fallback(t);
    case 6: { if (r.Pct(50)) { GTy tt = GTy::Set(GTy::Tuple({ u, RandomElemType(2) })); return "Pr1(" + Expr(tt, depth + 1) + ")"; } GTy tt = GTy::Set(GTy::Tuple({ RandomElemType(2), u })); return "Pr2(" + Expr(tt, depth + 1) + ")"; }
    case 7: return "red(" + Expr(GTy::Set(t), depth + 1) + ")";
    case 8: return "bool(" + Expr(u, depth + 1) + ")";
    case 9: if (u.k == GTy::TUPLE) {
        // filter over any index list (not only 1..n), per-index parameters or one product parameter
        const size_t n = u.sub.size(); const size_t i = r.Below(n);
        if (r.Pct(60)) return "Fi" + std::to_string(i + 1) + "[" + Expr(GTy::Set(u.sub[i]), depth + 1) + "](" + Expr(t, depth + 1) + ")";
        size_t j = r.Below(n); if (j == i) j = (i + 1) % n;
        const std::string idx = std::to_string(i + 1) + "," + std::to_string(j + 1);
        if (r.Pct(60)) return "Fi" + idx + "[" + Expr(GTy::Set(u.sub[i]), depth + 1) + "," + Expr(GTy::Set(u.sub[j]), depth + 1) + "](" + Expr(t, depth + 1) + ")";
        return "Fi" + idx + "[" + Expr(GTy::Set(GTy::Tuple({ u.sub[i], u.sub[j] })), depth + 1) + "](" + Expr(t, depth + 1) + ")";
      }
      return Fallback(t);
    case 10: { // imperative
      const std::string v = Fresh(); const GTy src = r.Pct(60) ? u : RandomElemType(1); const std::string dom = Expr(GTy::Set(src), depth + 1);   // often the iterated variable itself is the result element
      if (src.k == GTy::TUPLE && src.sub.size() == 2 && r.Pct(50)) {
        const std::string w = Fresh(); Push({ v, src.sub[0] }); Push({ w, src.sub[1] }); std::string body2 = Expr(u, depth + 1); std::string guard2 = r.Pct(50) ? ";" + Logic(depth + 1) : ""; locals.pop_back(); locals.pop_back();
        return "I{" + body2 + "|(" + v + "," + w + "):∈" + dom + guard2 + "}";
      }
      Push({ v, src }); std::string body = Expr(u, depth + 1); std::string guard = r.Pct(50) ? ";" + Logic(depth + 1) : ""; locals.pop_back();
      return "I{" + body + "|" + v + ":∈" + dom + guard + "}";
    }
    case 11: { // recursion (short / full); a bare step (without the variable) is compared with the initial value by the recursion rule itself
      const std::string v = Fresh(); const std::string init = r.Pct(30) ? std::string("∅") : Expr(t, depth + 1);   // with ∅ the type of the variable is re-deduced from the step
      Push({ v, t }); std::string step = r.Pct(10) ? std::string("∅") : r.Pct(30) ? Rhs(t, depth + 1) : v + "∪" + Rhs(t, depth + 1); std::string cond = r.Pct(50) ? "|card(" + v + ")<" + std::to_string(r.Range(1, 6)) : ""; locals.pop_back();
      return "R{" + v + ":=" + init + cond + "|" + step + "}";
    }
    case 12: return Dom(u);
    default: { // declarative with tuple binder when possible
      if (u.k == GTy::TUPLE && u.sub.size() == 2) {
        const std::string a = Fresh(), b = Fresh(); const std::string dom = Expr(t, depth + 1);
        Push({ a, u.sub[0] }); Push({ b, u.sub[1] }); std::string s = "D{(" + a + "," + b + ")∈" + dom + "|" + Logic(depth + 1) + "}"; locals.pop_back(); locals.pop_back(); return s;
      }
      return Fallback(t);
    }
    }
  }

  // The grammar brackets logic sparingly: "( … )" is allowed only around a predicate (atom) or a binary connective, never around a
  // quantifier, a negation or a predicate call; an operand / body that is itself unary therefore stays bare. lastKind: 0 atom, 1 unary, 2 binary.
  int lastKind{ 0 };
  std::string Operand(int depth) { std::string s = Logic(depth); return lastKind == 1 ? s : (lastKind == 0 && r.Pct(30) ? s : "(" + s + ")"); }
  std::string Body(int depth) { std::string s = Logic(depth); return lastKind == 1 ? s : "(" + s + ")"; }
  std::string Logic(int depth) {
    if (depth >= maxDepth) { lastKind = 0; return Atom(depth); }
    switch (r.Below(12)) {
    case 0: { std::string s = "¬" + Body(depth + 1); lastKind = 1; return s; }
    case 1: case 2: { static const char* ops[]{ "&", "∨", "⇒", "⇔" }; std::string a = Operand(depth + 1); std::string s = a + ops[r.Below(4)] + Operand(depth + 1); lastKind = 2; return s; }
    case 3: case 4: {
      const GTy u = RandomElemType(1); const std::string v = Fresh(); const std::string dom = Expr(GTy::Set(u), depth + 1);
      Push({ v, u }); std::string s = std::string(r.Pct(50) ? "∀" : "∃") + v + "∈" + dom + " " + Body(depth + 1); locals.pop_back();
      lastKind = 1;
      if (scopeEscape > 0 && r.Pct(scopeEscape)) { s = s + (r.Pct(50) ? "&" : "∨") + v + "=" + v; lastKind = 2; }
      return s;
    }
    case 5: {
      const GTy a = RandomElemType(2), b = RandomElemType(2); const std::string va = Fresh(), vb = Fresh(); const std::string dom = Expr(GTy::Set(GTy::Tuple({ a, b })), depth + 1);
      Push({ va, a }); Push({ vb, b }); std::string s = std::string(r.Pct(50) ? "∀" : "∃") + "(" + va + "," + vb + ")∈" + dom + " " + Body(depth + 1); locals.pop_back(); locals.pop_back(); lastKind = 1; return s;
    }
    case 6: { const GTy u = RandomElemType(1); const std::string va = Fresh(), vb = Fresh(); const std::string dom = Expr(GTy::Set(u), depth + 1);
      Push({ va, u }); Push({ vb, u }); std::string s = "∀" + va + "," + vb + "∈" + dom + " " + Body(depth + 1); locals.pop_back(); locals.pop_back(); lastKind = 1; return s; }
    case 7: for (auto& f : env.funcs) if (f.logic && r.Pct(60)) { std::string s = Call(f, depth); lastKind = 1; return s; } lastKind = 0; return Atom(depth);
    default: { std::string s = Atom(depth); lastKind = 0; return s; }
    }
  }

  // function definition: [α∈Dom, ...] body
  std::string FunctionDef(bool predicate) {
    const size_t base = locals.size();
    if (r.Pct(30)) {
      // the ROOT of the body is something normalisation has to rewrite after argument substitution: a tuple binder or another function's call
      std::vector<const GFunc*> same; for (auto& f : env.funcs) if (f.logic == predicate && !f.args.empty()) same.push_back(&f);
      if (!same.empty() && r.Pct(40)) {
        const GFunc& f = *r.Pick(same); std::string head = "[", call = f.name + "[";
        for (size_t i = 0; i < f.args.size(); ++i) { const std::string v = Fresh(); if (i) { head += ","; call += ","; } head += v + "∈" + Dom(f.args[i]); call += v; Push({ v, f.args[i] }); }
        locals.resize(base); return head + "] " + call + "]";
      }
      const GTy a = RandomElemType(2), b = RandomElemType(2); const GTy st = GTy::Set(GTy::Tuple({ a, b }));
      const std::string sv = Fresh(); Push({ sv, st }); const std::string x = Fresh(); Push({ x, a }); const std::string y = Fresh(); Push({ y, b });
      std::string body;
      if (predicate) body = std::string(r.Pct(50) ? "∀" : "∃") + "(" + x + "," + y + ")∈" + sv + " " + Body(2);
      else if (r.Pct(50)) body = "I{" + std::string(r.Pct(70) ? x : y) + "|(" + x + "," + y + "):∈" + sv + (r.Pct(50) ? ";" + Logic(2) : "") + "}";
      else body = "D{(" + x + "," + y + ")∈" + sv + "|" + Logic(2) + "}";
      locals.resize(base); return "[" + sv + "∈" + Dom(st) + "] " + body;
    }
    const int n = r.Range(1, 2); std::string head = "[";
    for (int i = 0; i < n; ++i) { const GTy u = RandomElemType(1); const std::string v = Fresh(); if (i) head += ","; head += v + "∈" + (r.Pct(15) ? "ℬ(R1)" : Dom(u)); Push({ v, u }); }
    std::string body = predicate ? Logic(1) : Expr(RandomType(), 1);
    locals.resize(base);
    return head + "] " + body;
  }

  std::string TopLevel(bool logic) { counter = 0; locals.clear(); return logic ? Logic(0) : Expr(RandomType(), 0); }
  std::string TopLevelOf(const GTy& t) { counter = 0; locals.clear(); return Expr(t, 0); }

private:
  static bool Atomic(const std::string& s) { int depth = 0; for (size_t i = 0; i < s.size(); ++i) { const char c = s[i]; if (c == '(' || c == '{' || c == '[') ++depth; else if (c == ')' || c == '}' || c == ']') --depth; else if (depth == 0 && (c == '+' || c == '-' || c == '*' || c == '\\' || c == ' ' || (static_cast<unsigned char>(c) >= 0xC3 && static_cast<unsigned char>(c) <= 0xE2 && i > 0))) return false; } return true; }
  std::string Par(const std::string& s) { return "(" + s + ")"; }
  std::string Wrap(const std::string& s) { return "(" + s + ")"; }
  std::string Fallback(const GTy& t) {
    const auto vars = VarsOf(t);
    if (!vars.empty()) return r.Pick(vars)->name;
    switch (t.k) {
    case GTy::INT: return std::to_string(r.Range(0, 9));
    case GTy::SET: return r.Pct(15) ? "∅" : Dom(t.sub[0]);
    case GTy::TUPLE: { std::string s = "("; for (size_t i = 0; i < t.sub.size(); ++i) { if (i) s += ","; s += Fallback(t.sub[i]); } return s + ")"; }
    default: return "debool(" + Dom(t) + ")";
    }
  }
  std::string Call(const GFunc& f, int depth) { std::string s = f.name + "["; for (size_t i = 0; i < f.args.size(); ++i) { if (i) s += ","; s += Expr(f.args[i], depth + 1); } return s + "]"; }
  std::string Atom(int depth) {
    const GTy u = RandomElemType(1);
    switch (r.Below(9)) {
    case 0: return Expr(u, depth + 1) + "=" + Rhs(u, depth + 1);
    case 1: return Expr(u, depth + 1) + "≠" + Rhs(u, depth + 1);
    case 2: case 3: return Expr(u, depth + 1) + (r.Pct(75) ? "∈" : "∉") + Rhs(GTy::Set(u), depth + 1);
    case 4: { static const char* ops[]{ "⊆", "⊂", "⊄" }; return Expr(GTy::Set(u), depth + 1) + ops[r.Below(3)] + Rhs(GTy::Set(u), depth + 1); }
    case 5: { static const char* ops[]{ "<", ">", "≤", "≥" }; return Expr(GTy::Int(), depth + 1) + ops[r.Below(4)] + Expr(GTy::Int(), depth + 1); }
    case 6: return "1=1";
    case 7: return "card(" + Expr(GTy::Set(u), depth + 1) + ")" + (r.Pct(50) ? "=" : ">") + std::to_string(r.Range(0, 4));
    default: return Expr(GTy::Set(u), depth + 1) + "=" + (r.Pct(30) ? "∅" : Rhs(GTy::Set(u), depth + 1));
    }
  }
};

// ---- text-level mutants: near misses, dangling / forward / self references, storage damage
inline std::vector<std::string> CodePoints(const std::string& s) {
  std::vector<std::string> r;
  for (size_t i = 0; i < s.size();) { const unsigned char c = static_cast<unsigned char>(s[i]); size_t n = c < 0x80 ? 1 : (c & 0x20) == 0 ? 2 : (c & 0x10) == 0 ? 3 : 4; if (i + n > s.size()) n = s.size() - i; r.push_back(s.substr(i, n)); i += n; }
  return r;
}
// locals lose their numeric suffix: the same local name is then bound again in sibling (or nested) scopes
inline std::string ReuseLocalNames(const std::string& s) {
  std::string out; size_t i = 0;
  while (i < s.size()) {
    const unsigned char c0 = static_cast<unsigned char>(s[i]);
    const bool greek = i + 1 < s.size() && ((c0 == 0xCE && static_cast<unsigned char>(s[i + 1]) >= 0xB1) || (c0 == 0xCF && static_cast<unsigned char>(s[i + 1]) <= 0x89));
    const bool lowerStart = (c0 >= 'a' && c0 <= 'z') && (i == 0 || !std::isalnum(static_cast<unsigned char>(s[i - 1])));
    if (greek || lowerStart) {
      size_t j = i + (greek ? 2 : 1); while (j < s.size() && s[j] >= '0' && s[j] <= '9') ++j;
      const bool single = j > i + (greek ? 2 : 1) && (j >= s.size() || !std::isalnum(static_cast<unsigned char>(s[j])));
      if (single) { out += s.substr(i, greek ? 2 : 1); i = j; continue; }
    }
    out += s[i]; ++i;
  }
  return out;
}
// the same text with ONLY the index list of one projection / filter token changed to another plausible list (Pr1 -> Pr2, Pr1 -> Pr1,2 ...):
// an edit that differs from the stored definition in nothing but the payload of one token
inline bool HasIndexToken(const std::string& s) { for (size_t i = 0; i + 2 < s.size(); ++i) if ((s.compare(i, 2, "pr") == 0 || s.compare(i, 2, "Pr") == 0 || s.compare(i, 2, "Fi") == 0) && s[i + 2] >= '0' && s[i + 2] <= '9') return true; return false; }
inline std::string IndexEdit(Rng& r, const std::string& s) {
  std::vector<size_t> at;
  for (size_t i = 0; i + 2 < s.size(); ++i) if ((s.compare(i, 2, "pr") == 0 || s.compare(i, 2, "Pr") == 0 || s.compare(i, 2, "Fi") == 0) && s[i + 2] >= '0' && s[i + 2] <= '9') at.push_back(i);
  if (at.empty()) return s;
  const size_t i = r.Pick(at); size_t j = i + 2; while (j < s.size() && ((s[j] >= '0' && s[j] <= '9') || s[j] == ',')) ++j;
  const std::string old = s.substr(i + 2, j - i - 2);
  static const std::vector<std::string> lists{ "1", "2", "3", "1,2", "2,1", "1,3", "1,2,3" };
  std::string neu = r.Pick(lists); if (neu == old) neu = old + ",2";
  if (r.Pct(40)) neu = old.find(',') == std::string::npos ? old + "," + std::to_string(r.Range(1, 3)) : old.substr(0, old.find(','));   // only longer / only shorter
  return s.substr(0, i + 2) + neu + s.substr(j);
}
// a product regrouped: A×B×C <-> (A×B)×C (different typifications that print alike if brackets are lost)
inline std::string Regroup(Rng& r, const std::string& s) {
  const std::string x = "×"; const auto a = s.find(x); if (a == std::string::npos) return s; const auto b = s.find(x, a + x.size()); if (b == std::string::npos) return s;
  size_t st = a; int depth = 0; while (st > 0) { const char ch = s[st - 1]; if (ch == ')' || ch == '}' || ch == ']') ++depth; else if (ch == '(' || ch == '{' || ch == '[') { if (depth == 0) break; --depth; } else if (depth == 0 && (ch == '|' || ch == ',' || ch == ' ' || ch == '=')) break; --st; }
  (void)r; return s.substr(0, st) + "(" + s.substr(st, b - st) + ")" + s.substr(b);
}
inline std::string Mutate(Rng& r, const std::string& text, const Env& env) {
  auto cps = CodePoints(text);
  if (cps.empty()) return text;
  switch (r.Below(11)) {
  case 9: { std::string s; for (auto& c : cps) s += c; return ReuseLocalNames(s); }
  case 10: {  // filter with more (or fewer) parameters than indices
    std::string s; for (auto& c : cps) s += c;
    const auto f = s.find("Fi"); if (f == std::string::npos) return s + "∪Fi1[X1,X1](X1×X1)";
    const auto lb = s.find('[', f); if (lb == std::string::npos) return s;
    int depth = 0; size_t rb = lb; for (; rb < s.size(); ++rb) { if (s[rb] == '[') ++depth; else if (s[rb] == ']' && --depth == 0) break; }
    if (rb >= s.size()) return s;
    const std::string inner = s.substr(lb + 1, rb - lb - 1);
    return s.substr(0, lb + 1) + (r.Pct(70) ? inner + "," + inner : "") + s.substr(rb);
  }
  case 8: {   // index of a projection / filter replaced by a boundary value (0, beyond the arity, beyond 16 bits, list with a zero)
    std::string s; for (auto& c : cps) s += c;
    for (size_t i = 0; i + 2 < s.size(); ++i) if ((s.compare(i, 2, "pr") == 0 || s.compare(i, 2, "Pr") == 0 || s.compare(i, 2, "Fi") == 0) && s[i + 2] >= '0' && s[i + 2] <= '9') {
      size_t j = i + 2; while (j < s.size() && ((s[j] >= '0' && s[j] <= '9') || s[j] == ',')) ++j;
      static const std::vector<std::string> idx{ "0", "9", "70000", "1,0", "0,1", "32768", "00" };
      return s.substr(0, i + 2) + r.Pick(idx) + s.substr(j);
    }
    static const std::vector<std::string> wrap{ "pr0(", "Pr0(", "pr2(", "Pr0,1(" };
    return r.Pick(wrap) + s + ")";
  }
  case 0: cps.erase(cps.begin() + static_cast<long>(r.Below(cps.size()))); break;
  case 1: { const size_t i = r.Below(cps.size()); cps.insert(cps.begin() + static_cast<long>(i), cps[i]); break; }
  case 2: if (cps.size() > 1) { const size_t i = r.Below(cps.size() - 1); std::swap(cps[i], cps[i + 1]); } break;
  case 3: { static const std::vector<std::string> junk{ "∅", ")", "(", "}", "{", "|", ",", "pr3", "Pr9", "@", "ℬ", "×", "B", "\n", " ", "R1", "F9[", "P9[", "D", "I", "R", "~" }; cps.insert(cps.begin() + static_cast<long>(r.Below(cps.size() + 1)), r.Pick(junk)); break; }
  case 4: case 5: { // replace the first global-looking name by some alias (possibly dangling / forward)
    std::string s; for (auto& c : cps) s += c;
    const std::string repl = !env.allAliases.empty() && r.Pct(70) ? r.Pick(env.allAliases) : std::string(1, "XCSDAFTP"[r.Below(8)]) + std::to_string(r.Range(1, 30));
    for (size_t i = 0; i < s.size(); ++i) if (std::string("XCSDAFTP").find(s[i]) != std::string::npos && i + 1 < s.size() && s[i + 1] >= '0' && s[i + 1] <= '9' && (i == 0 || !(std::isalnum(static_cast<unsigned char>(s[i - 1]))))) { size_t j = i + 1; while (j < s.size() && s[j] >= '0' && s[j] <= '9') ++j; return s.substr(0, i) + repl + s.substr(j); }
    return s + "∪" + repl;
  }
  case 6: { std::string s; for (auto& c : cps) s += c; return "(" + s + ")"; }
  default: { std::string s; for (size_t i = 0; i < cps.size(); ++i) { s += cps[i]; if (r.Pct(15)) s += " "; } return s; }
  }
  std::string s; for (auto& c : cps) s += c; return s;
}
// an ill-scoped near miss as a whole expression (LOGIC): a name bound in a shallow scope, bound again deeper over an EMPTY domain of a
// structurally different type, and used once more after that inner scope has ended. A correct checker rejects it (use out of scope);
// if it is accepted, the use reads whatever the first binding left behind.
inline std::string ScopeEscapeTemplate(Rng& r, const Env& env) {
  if (env.baseNames.empty()) return "1=1";
  const std::string B = r.Pick(env.baseNames), B2 = r.Pick(env.baseNames);
  struct Shape { std::string dom, use; };
  auto shape = [&](int k, const std::string& n) -> Shape {
    switch (k) {
    case 0: return { B, n + "∈" + B };
    case 1: return { B + "×" + B2, "pr1(" + n + ")=pr1(" + n + ")" };
    case 2: return { "ℬ(" + B + ")", "card(" + n + ")=card(" + n + ")" };
    default: return { B + "×" + B2 + "×" + B, "pr3(" + n + ")=pr3(" + n + ")" };
    }
  };
  static const char* names[]{ "ξ", "σ", "α", "x", "t" };
  const std::string n = names[r.Below(5)], m = std::string(names[r.Below(5)]) + "7";
  const int k1 = static_cast<int>(r.Below(4)); int k2 = static_cast<int>(r.Below(4)); if (k2 == k1) k2 = (k1 + 1) % 4;
  const Shape s1 = shape(k1, n), s2 = shape(k2, n);
  const std::string empty = "((" + s2.dom + ")\\(" + s2.dom + "))";
  std::string first;
  switch (r.Below(3)) {
  case 0: first = "∀" + n + "∈" + s1.dom + " (" + s1.use + ")"; break;
  case 1: first = "card(D{" + n + "∈" + s1.dom + "|" + s1.use + "})≥0"; break;
  default: first = "card(I{" + n + "|" + n + ":∈" + s1.dom + "})≥0"; break;
  }
  const std::string inner = std::string(r.Pct(50) ? "∀" : "∃") + n + "∈" + (r.Pct(80) ? empty : s2.dom) + " (1=1)";
  // (the grammar never brackets a quantifier: the parts are joined bare)
  return first + "&∀" + m + "∈" + B + " (" + inner + (r.Pct(50) ? "&" : "∨") + "(" + s2.use + "))";
}
inline std::string Damage(Rng& r, std::string s) {   // storage fault on a stored text
  if (s.empty()) return s;
  switch (r.Below(3)) {
  case 0: s.resize(r.Below(s.size())); break;
  case 1: s[r.Below(s.size())] = static_cast<char>(r.Below(256)); break;
  default: s.insert(r.Below(s.size() + 1), 1, static_cast<char>(0x80 + r.Below(0x80))); break;
  }
  return s;
}

} // namespace exprgen
