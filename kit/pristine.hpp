#pragma once
// pristine — a reference for process-global (static) state that cannot be re-created inside a process.
// A server child is forked from the worker BEFORE the worker has run any library code; it never runs library code itself:
// for every request it forks a grandchild (so the grandchild's static state is the pristine one of process start), lets it
// compute the answer, and relays it. The answer is therefore a pure function of the request: one seed is still one execution.
#include <cerrno>
#include <csignal>
#include <cstdint>
#include <cstring>
#include <functional>
#include <optional>
#include <string>
#include <sys/types.h>
#include <sys/wait.h>
#include <unistd.h>

namespace pristine {

class Server {
  pid_t pid{ 0 };
  int req{ -1 }, rep{ -1 };
  static bool WriteAll(int fd, const void* p, size_t n) { const char* c = static_cast<const char*>(p); while (n > 0) { const ssize_t k = write(fd, c, n); if (k < 0) { if (errno == EINTR) continue; return false; } c += k; n -= static_cast<size_t>(k); } return true; }
  static bool ReadAll(int fd, void* p, size_t n) { char* c = static_cast<char*>(p); while (n > 0) { const ssize_t k = read(fd, c, n); if (k < 0) { if (errno == EINTR) continue; return false; } if (k == 0) return false; c += k; n -= static_cast<size_t>(k); } return true; }
  static bool Send(int fd, const std::string& s) { const uint32_t n = static_cast<uint32_t>(s.size()); return WriteAll(fd, &n, 4) && WriteAll(fd, s.data(), s.size()); }
  static std::optional<std::string> Recv(int fd) { uint32_t n = 0; if (!ReadAll(fd, &n, 4) || n == 0xffffffffu || n > (64u << 20)) return std::nullopt; std::string s(n, '\0'); if (n && !ReadAll(fd, s.data(), n)) return std::nullopt; return s; }

public:
  bool Running() const { return pid > 0; }
  // handler runs in a grandchild with pristine static state
  void Start(const std::function<std::string(const std::string&)>& handler) {
    if (pid > 0) return;
    int a[2], b[2];
    if (pipe(a) != 0) return;
    if (pipe(b) != 0) { close(a[0]); close(a[1]); return; }
    const pid_t p = fork();
    if (p < 0) { close(a[0]); close(a[1]); close(b[0]); close(b[1]); return; }
    if (p == 0) {
      // server: keep only its two pipe ends (in particular not the worker's result pipe, whose EOF tells the driver that the worker died)
      for (int fd = 3; fd < 4096; ++fd) if (fd != a[0] && fd != b[1]) close(fd);
      signal(SIGPROF, SIG_IGN); signal(SIGPIPE, SIG_IGN);
      for (;;) {
        auto r = Recv(a[0]);
        if (!r) _exit(0);
        int c[2]; if (pipe(c) != 0) _exit(0);
        const pid_t g = fork();
        if (g == 0) {
          close(c[0]); signal(SIGPROF, SIG_DFL);
          std::string out;
          try { out = handler(*r); } catch (const std::exception& ex) { out = std::string("<exception: ") + ex.what() + ">"; }
          Send(c[1], out); _exit(0);
        }
        close(c[1]);
        std::optional<std::string> out; if (g > 0) out = Recv(c[0]);
        close(c[0]);
        if (g > 0) { int st; while (waitpid(g, &st, 0) < 0 && errno == EINTR) {} }
        if (out) { if (!Send(b[1], *out)) _exit(0); } else { const uint32_t none = 0xffffffffu; if (!WriteAll(b[1], &none, 4)) _exit(0); }
      }
    }
    close(a[0]); close(b[1]); req = a[1]; rep = b[0]; pid = p;
  }
  std::optional<std::string> Ask(const std::string& request) {
    if (pid <= 0) return std::nullopt;
    if (!Send(req, request)) { Stop(); return std::nullopt; }
    uint32_t n = 0; if (!ReadAll(rep, &n, 4)) { Stop(); return std::nullopt; }
    if (n == 0xffffffffu) return std::nullopt;
    std::string s(n, '\0'); if (n && !ReadAll(rep, s.data(), n)) { Stop(); return std::nullopt; }
    return s;
  }
  void Stop() {
    if (pid <= 0) return;
    close(req); close(rep); req = rep = -1;
    int st; while (waitpid(pid, &st, 0) < 0 && errno == EINTR) {}
    pid = 0;
  }
  ~Server() { Stop(); }
};

} // namespace pristine
