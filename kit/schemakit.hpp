#pragma once
// schemakit — helpers shared by the engines that drive RSForm / RSModel / OSS documents:
// environment stubs, view of a schema for the expression generator, fresh rebuild, comparisons, invariants.
#include "simkit.hpp"
#include "exprgen.hpp"
#include "idscan.hpp"

#include "ccl/semantic/RSForm.h"
#include "ccl/tools/JSON.h"
#include "ccl/lang/TextEnvironment.h"
#include "ccl/rslang/SyntaxTree.h"

#include <memory>

namespace sk {

using namespace ccl;
using semantic::CstType;
using semantic::RSForm;
using JSON = nlohmann::ordered_json;

// Stub of the external inflector. limit > 0: only the first `limit` code points of the inflected text are kept, which bounds
// the growth of mutually referencing terms (see known finding KF-C04-1); limit == 0: unbounded, as a plain inflector would behave.
struct SimTextProc final : lang::TextProcessor {
  bool faultEmpty{ false };
  size_t limit{ 0 };
  std::string Cut(const std::string& t) const {
    if (limit == 0) return t;
    size_t i = 0, n = 0; while (i < t.size() && n < limit) { const unsigned char c = static_cast<unsigned char>(t[i]); i += c < 0x80 ? 1 : (c & 0x20) == 0 ? 2 : (c & 0x10) == 0 ? 3 : 4; ++n; }
    return t.substr(0, std::min(i, t.size()));
  }
  std::string Inflect(const std::string& target, const lang::Morphology& form) const override { return faultEmpty ? std::string{} : Cut(target) + "~" + form.ToString(); }
  std::string InflectDependant(const std::string& dependant, const std::string& main) const override { return faultEmpty ? std::string{} : Cut(dependant) + "^" + Cut(main); }
};
inline SimTextProc* InstallTextProc() { auto p = std::make_unique<SimTextProc>(); auto* raw = p.get(); lang::TextEnvironment::SetProcessor(std::move(p)); lang::TextEnvironment::Instance().skipResolving = false; return raw; }
inline void RemoveTextProc() { lang::TextEnvironment::SetProcessor(std::make_unique<lang::TextProcessor>()); lang::TextEnvironment::Instance().skipResolving = false; }

inline const std::vector<CstType>& AllTypes() {
  static const std::vector<CstType> t{ CstType::base, CstType::constant, CstType::structured, CstType::axiom, CstType::term, CstType::function, CstType::theorem, CstType::predicate };
  return t;
}
// ops carry the kind as an integer; anything that is not a valid kind (e.g. after shrinking) means "base set"
inline CstType TypeFrom(int64_t v) { for (auto t : AllTypes()) if (static_cast<int64_t>(t) == v) return t; return CstType::base; }
inline char LetterOf(CstType t) {
  switch (t) { case CstType::base: return 'X'; case CstType::constant: return 'C'; case CstType::structured: return 'S'; case CstType::axiom: return 'A';
  case CstType::term: return 'D'; case CstType::function: return 'F'; case CstType::theorem: return 'T'; default: return 'P'; }
}
inline std::vector<EntityUID> ListOf(const RSForm& f) { std::vector<EntityUID> v; for (const auto uid : f.List()) v.push_back(uid); return v; }

// view of the schema for the generator (uses what the library itself reports; only a hint for generation)
template <class DocT>
inline exprgen::Env EnvOf(const DocT& f) {
  exprgen::Env env;
  for (const auto uid : f.List()) {
    const auto& rs = f.GetRS(uid); const auto& parse = f.GetParse(uid);
    env.allAliases.push_back(rs.alias);
    if (semantic::IsBaseSet(rs.type)) env.baseNames.push_back(rs.alias);
    const auto* typ = parse.Typification();
    if (semantic::IsCallable(rs.type)) {
      if (parse.arguments.has_value() && parse.exprType.has_value()) {
        exprgen::GFunc fn; fn.name = rs.alias; fn.logic = typ == nullptr; if (typ) fn.ret = exprgen::FromTypification(*typ);
        bool concrete = true;
        for (const auto& a : *parse.arguments) { fn.args.push_back(exprgen::FromTypification(a.type)); if (a.type.ToString().find('R') != std::string::npos) concrete = false; }
        if (typ && typ->ToString().find('R') != std::string::npos) concrete = false;
        if (concrete) env.funcs.push_back(fn);
      }
    } else if (typ != nullptr && parse.status == semantic::ParsingStatus::VERIFIED) {
      env.globals.push_back({ rs.alias, exprgen::FromTypification(*typ) });
    }
  }
  return env;
}

// "a schema freshly built from the same content": same uids, aliases, texts, manual forms, in list order
// the content of a constituent as a user would type it in: raw texts and manual word forms only — no resolved text, no memoised
// word forms (a record copied with AsRecord would carry the caches of the very object under test into the "fresh" schema)
inline semantic::ConceptRecord RawRecord(const semantic::RSCore& core, EntityUID uid) {
  const auto full = core.AsRecord(uid);
  semantic::ConceptRecord rec; rec.uid = full.uid; rec.alias = full.alias; rec.type = full.type; rec.rs = full.rs; rec.convention = full.convention;
  rec.term = lang::LexicalTerm{ full.term.Text().Raw() };
  for (const auto& [form, text] : full.term.GetAllManual()) rec.term.SetForm(form, text);
  rec.definition = lang::ManagedText{ full.definition.Raw() };
  return rec;
}
inline void Rebuild(const RSForm& doc, RSForm& fresh) {
  for (const auto uid : doc.List()) fresh.Load(RawRecord(doc.Core(), uid));
  fresh.UpdateState();
  for (const auto uid : doc.List()) if (const auto* t = doc.Mods()(uid)) fresh.Mods().Track(uid, *t);
}

inline std::string TypeStr(const semantic::ParsingInfo& p) {
  if (!p.exprType.has_value()) return "<none>";
  if (const auto* t = p.Typification()) return t->ToString();
  return "LOGIC";
}
inline std::string ArgsStr(const semantic::ParsingInfo& p) {
  if (!p.arguments.has_value()) return "<none>";
  std::string s; for (const auto& a : *p.arguments) s += a.name + ":" + a.type.ToString() + ";"; return s;
}
inline std::string AstStr(const semantic::ParsingInfo& p) { return p.ast ? rslang::AST2String::Apply(*p.ast) : std::string{ "<none>" }; }
inline std::string SetStr(const SetOfEntities& s) { std::set<EntityUID> o(s.begin(), s.end()); std::string r; for (auto u : o) r += std::to_string(u) + ","; return r; }
inline const std::vector<lang::Morphology>& ProbeForms() {
  static const std::vector<lang::Morphology> f{ lang::Morphology{ lang::Grammem::sing, lang::Grammem::nomn }, lang::Morphology{ lang::Grammem::plur, lang::Grammem::gent }, lang::Morphology{ lang::Grammem::datv } };
  return f;
}

// C07: everything the schema reports for each constituent vs a fresh rebuild. Returns description of the first difference.
// out-parameter facet names the differing facet (used as trigger discriminator).
inline std::optional<std::string> CompareWithFresh(const RSForm& doc, const RSForm& fresh, std::string& facet, bool& termCycle) {
  termCycle = fresh.Texts().TermGraph().HasLoop();
  for (const auto uid : doc.List()) {
    if (!fresh.Contains(uid)) { facet = "membership"; return "constituent " + std::to_string(uid) + " missing in rebuilt schema"; }
    const auto& a = doc.GetParse(uid); const auto& b = fresh.GetParse(uid);
    const std::string name = doc.GetRS(uid).alias + "(" + doc.GetRS(uid).definition + ")";
    if (a.status != b.status) { facet = "status"; return name + " status " + std::to_string(static_cast<int>(a.status)) + " vs fresh " + std::to_string(static_cast<int>(b.status)); }
    if (TypeStr(a) != TypeStr(b)) { facet = "type"; return name + " type " + TypeStr(a) + " vs fresh " + TypeStr(b); }
    if (ArgsStr(a) != ArgsStr(b)) { facet = "args"; return name + " args " + ArgsStr(a) + " vs fresh " + ArgsStr(b); }
    if (a.valueClass != b.valueClass) { facet = "value_class"; return name + " value class differs from fresh"; }
    if (AstStr(a) != AstStr(b)) { facet = "ast"; return name + " tree " + AstStr(a) + " vs fresh " + AstStr(b); }
    const auto ia = doc.RSLang().Graph().InputsFor(uid), ib = fresh.RSLang().Graph().InputsFor(uid);
    if (ia != ib) { facet = "edges"; return name + " dependency inputs {" + SetStr(ia) + "} vs fresh {" + SetStr(ib) + "}"; }
    if (!termCycle) {
      const auto& ta = doc.GetText(uid); const auto& tb = fresh.GetText(uid);
      if (ta.term.Nominal() != tb.term.Nominal()) { facet = "term"; return name + " resolved term '" + ta.term.Nominal() + "' vs fresh '" + tb.term.Nominal() + "'"; }
      if (ta.definition.Str() != tb.definition.Str()) { facet = "textdef"; return name + " resolved definition '" + ta.definition.Str() + "' vs fresh '" + tb.definition.Str() + "'"; }
      for (const auto& f : ProbeForms()) if (ta.term.GetForm(f) != tb.term.GetForm(f)) { facet = "form"; return name + " form " + f.ToString() + " '" + ta.term.GetForm(f) + "' vs fresh '" + tb.term.GetForm(f) + "'"; }
      for (const auto& [f, text] : ta.term.GetAllManual()) if (ta.term.GetForm(f) != tb.term.GetForm(f)) { facet = "form"; return name + " manual form differs from fresh"; }
    }
  }
  if (doc.RSLang().Graph().ConnectionsCount() != fresh.RSLang().Graph().ConnectionsCount()) { facet = "edges"; return "dependency graph has " + std::to_string(doc.RSLang().Graph().ConnectionsCount()) + " edges, fresh has " + std::to_string(fresh.RSLang().Graph().ConnectionsCount()); }
  if (doc.RSLang().Graph().ItemsCount() != fresh.RSLang().Graph().ItemsCount()) { facet = "edges"; return "dependency graph item count differs from fresh"; }
  return std::nullopt;
}

// C09 I1-I3: identity and ordering invariants
inline std::optional<std::string> CheckIdentity(const RSForm& doc, std::string& facet) {
  std::vector<EntityUID> core, list, rs, texts;
  for (const auto uid : doc.Core()) core.push_back(uid);
  for (const auto uid : doc.List()) list.push_back(uid);
  for (const auto& c : doc.RSLang()) rs.push_back(c.uid);
  for (const auto& c : doc.Texts()) texts.push_back(c.uid);
  auto sorted = [](std::vector<EntityUID> v) { std::sort(v.begin(), v.end()); return v; };
  const auto sl = sorted(list);
  if (std::adjacent_find(sl.begin(), sl.end()) != sl.end()) { facet = "list-duplicate"; return "ordered list contains a constituent twice"; }
  if (sorted(core) != sl || sorted(rs) != sl || sorted(texts) != sl) { facet = "views-differ"; return "identifier sets differ between views: core " + std::to_string(core.size()) + ", list " + std::to_string(list.size()) + ", formal " + std::to_string(rs.size()) + ", texts " + std::to_string(texts.size()); }
  if (doc.Core().size() != list.size()) { facet = "views-differ"; return "Core().size() differs from list size"; }
  std::set<std::string> aliases;
  int lastRank = 0;
  for (const auto uid : list) {
    const auto& c = doc.GetRS(uid);
    if (c.uid != uid || doc.GetText(uid).uid != uid) { facet = "uid-mismatch"; return "stored uid differs from key for " + c.alias; }
    if (doc.GetText(uid).alias != c.alias) { facet = "alias-mismatch"; return "formal alias " + c.alias + " vs text alias " + doc.GetText(uid).alias; }
    if (!aliases.insert(c.alias).second) { facet = "alias-duplicate"; return "alias " + c.alias + " is used twice"; }
    if (c.alias.size() < 2 || c.alias[0] != LetterOf(c.type)) { facet = "alias-letter"; return "alias " + c.alias + " does not match kind " + std::to_string(static_cast<int>(c.type)); }
    for (size_t i = 1; i < c.alias.size(); ++i) if (c.alias[i] < '0' || c.alias[i] > '9') { facet = "alias-letter"; return "alias " + c.alias + " is ill-formed"; }
    const auto found = doc.Core().FindAlias(c.alias);
    if (!found.has_value() || *found != uid) { facet = "find-alias"; return "FindAlias(" + c.alias + ") does not return its constituent"; }
    const int rank = c.type == CstType::base ? 1 : c.type == CstType::constant ? 2 : c.type == CstType::structured ? 3 : 4;
    if (rank < lastRank) { facet = "order"; return "list order violates base < constant < structure < derived at " + c.alias; }
    lastRank = rank;
  }
  return std::nullopt;
}

// canonical dump: everything observable, unordered collections sorted
inline std::string Dump(const RSForm& doc) {
  JSON j = doc;
  std::string s = j.dump(-1, ' ', false, JSON::error_handler_t::replace);
  for (const auto uid : doc.List()) {
    std::map<std::string, std::string> forms;
    for (const auto& [f, t] : doc.GetText(uid).term.GetAllManual()) forms[f.ToString()] = t;
    s += "|" + std::to_string(uid) + ":";
    for (auto& [f, t] : forms) s += f + "=" + t + ";";
  }
  return s;
}
// dump without the "forms" arrays of the JSON (their order is storage order) — forms are appended sorted instead
inline std::string DumpStable(const RSForm& doc) {
  JSON j = doc;
  if (j.contains("items")) for (auto& it : j["items"]) if (it.contains("term") && it["term"].contains("forms")) it["term"].erase("forms");
  std::string s = j.dump(-1, ' ', false, JSON::error_handler_t::replace);
  for (const auto uid : doc.List()) {
    std::map<std::string, std::string> forms;
    for (const auto& [f, t] : doc.GetText(uid).term.GetAllManual()) forms[f.ToString()] = t;
    s += "|" + std::to_string(uid) + ":";
    for (auto& [f, t] : forms) s += f + "=" + t + ";";
  }
  return s;
}

// ---- text generation for terms / text definitions (clearly classified pieces only)
inline std::string GenTagList(sim::Rng& r) {
  const auto& tags = refscan::Tags(); std::string s; const int n = r.Range(1, 2);
  for (int i = 0; i < n; ++i) { if (i) s += ","; s += tags[static_cast<size_t>(r.Range(24, 34))]; }
  return s;
}
inline std::string GenRefText(sim::Rng& r, const std::vector<std::string>& aliases, int pDangling = 12) {
  static const std::vector<std::string> words{ "слово", "term", "a", "β", " ", ", ", "множество", "x1", "(", ")", "∀" };
  std::string s; const int n = r.Range(0, 4);
  for (int i = 0; i < n; ++i) {
    const int k = static_cast<int>(r.Below(100));
    if (k < 45) s += r.Pick(words);
    else if (k < 85) {
      std::string a = !aliases.empty() && !r.Pct(pDangling) ? r.Pick(aliases) : std::string(1, "XCSDAFTP"[r.Below(8)]) + std::to_string(r.Range(1, 20));
      if (r.Pct(85)) s += "@{" + a + "|" + GenTagList(r) + "}"; else s += "@{" + a + "|" + refscan::Tags()[static_cast<size_t>(r.Range(24, 28))] + "|" + refscan::Tags()[static_cast<size_t>(r.Range(29, 34))] + "}";
    } else if (k < 93) s += "@{" + std::to_string(r.Range(-2, 2)) + "|" + r.Pick(words) + "}";
    else s += r.Pick(std::vector<std::string>{ "@{X1}", "@{|nomn}", "@{X1|zzzz}", "@", "@{}" });
  }
  return s;
}

} // namespace sk
