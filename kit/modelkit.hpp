#pragma once
// modelkit — helpers for engines that drive RSModel: random data compatible with a typification, the harness's own
// recursive shape check (not the library's first-element check), rebuild of a model, value printing.
#include "schemakit.hpp"

#include "ccl/semantic/RSModel.h"
#include "ccl/rslang/SDataCompact.h"

namespace mk {

using namespace sk;
using semantic::RSModel;
using object::StructuredData;
using object::Factory;
using rslang::Typification;

inline std::vector<EntityUID> ListOf(const RSModel& m) { std::vector<EntityUID> v; for (const auto uid : m.List()) v.push_back(uid); return v; }

// element ids of a base/constant set by alias; empty if unknown
inline std::vector<int32_t> ElementsOf(const RSModel& m, const std::string& baseAlias) {
  std::vector<int32_t> v;
  const auto uid = m.Core().FindAlias(baseAlias);
  if (!uid.has_value()) return v;
  if (const auto* t = m.Values().TextFor(*uid)) for (const auto& [k, s] : *t) v.push_back(k);
  return v;
}

// random value of the given typification over the current base interpretations (may be impossible: nullopt)
inline std::optional<StructuredData> RandomValue(sim::Rng& r, const Typification& t, const RSModel& m, int depth = 0) {
  if (t.IsElement()) {
    if (t == Typification::Integer()) { static const std::vector<int32_t> far{ -2147483647, -2000000000, -1073741824, 1073741824, 2000000000, 2147483647 }; return Factory::Val(r.Pct(6) ? r.Pick(far) : static_cast<int32_t>(r.Range(-2, 9))); }   // sometimes integers further apart than INT32_MAX
    const auto el = ElementsOf(m, t.E().baseID);
    if (el.empty()) return std::nullopt;
    return Factory::Val(r.Pick(el));
  }
  if (t.IsTuple()) {
    std::vector<StructuredData> c;
    for (rslang::Index i = 1; i <= t.T().Arity(); ++i) { auto v = RandomValue(r, t.T().Component(i), m, depth + 1); if (!v) return std::nullopt; c.push_back(*v); }
    return Factory::Tuple(c);
  }
  auto s = Factory::EmptySet();
  const int n = r.Pct(20) ? 0 : r.Range(1, depth == 0 ? 4 : 2);
  for (int i = 0; i < n; ++i) if (auto v = RandomValue(r, t.B().Base(), m, depth + 1)) s.ModifyB().AddElement(*v);
  return s;
}

// harness's own recursive shape check; checkElements: basic elements must exist in the current base interpretation
inline bool DeepCompatible(const StructuredData& d, const Typification& t, const RSModel* m = nullptr) {
  if (t.IsAnyType()) return true;
  if (t.IsElement()) {
    if (!d.IsElement()) return false;
    if (m == nullptr || t == Typification::Integer()) return true;
    const auto el = ElementsOf(*m, t.E().baseID);
    const auto uid = m->Core().FindAlias(t.E().baseID);
    if (uid.has_value() && m->GetRS(*uid).type == CstType::constant) return true;   // constant sets behave as integers
    return std::find(el.begin(), el.end(), d.E().Value()) != el.end();
  }
  if (t.IsTuple()) {
    if (!d.IsTuple() || d.T().Arity() != t.T().Arity()) return false;
    for (rslang::Index i = 1; i <= t.T().Arity(); ++i) if (!DeepCompatible(d.T().Component(i), t.T().Component(i), m)) return false;
    return true;
  }
  if (!d.IsCollection()) return false;
  if (d.B().Cardinality() > 5000) return true;   // huge lazy sets are not enumerated by the harness
  for (const auto& e : d.B()) if (!DeepCompatible(e, t.B().Base(), m)) return false;
  return true;
}

// "a model freshly built from the same content": records, base interpretations, structure data
inline void RebuildModel(const RSModel& src, RSModel& fresh) {
  for (const auto uid : src.List()) fresh.Load(RawRecord(src.Core(), uid));
  fresh.UpdateState();
  fresh.FinalizeLoadingCore();
  for (const auto uid : src.List()) {
    const auto type = src.GetRS(uid).type;
    if (semantic::IsBaseSet(type)) { if (const auto* t = src.Values().TextFor(uid)) fresh.Values().LoadData(uid, *t); }
    else if (type == CstType::structured) { if (const auto v = src.Values().SDataFor(uid); v.has_value()) fresh.Values().LoadData(uid, *v); }
  }
}

inline std::string ValueStr(const RSModel& m, EntityUID uid) {
  if (const auto v = m.Values().SDataFor(uid); v.has_value()) { if (v->IsCollection() && v->B().Cardinality() > 3000) return "<set of " + std::to_string(v->B().Cardinality()) + ">"; return v->ToString(); }
  if (const auto b = m.Values().StatementFor(uid); b.has_value()) return *b ? "TRUE" : "FALSE";
  return "<none>";
}

} // namespace mk
