#!/bin/bash
# Reach measurement (not a check): builds the library with gcov instrumentation (VERIF_SAN=cov, separate build dir), runs the
# quick workload of every claimed property with a reduced run count, and reports for every source file a property is anchored
# in (properties.jsonl anchors.files) the line coverage and the functions the workload never entered -> selftest/reach.json.
# usage: tools/reach.sh [runs-per-engine=1500] [property ...]
HERE="$(dirname "$(readlink -f "$0")")/.."; cd "$HERE"
RUNS="${1:-1500}"; shift
PROPS="${*:-C02 C04 C07 C08 C09 C10 C11 C12 C14 C15 C16 C17 C18 C19}"
export VERIF_SAN=cov VERIF_EVIDENCE_DIR="$HERE/out/scratch-evidence"
OUT=$(./build.sh) || { echo "coverage build failed"; exit 2; }
B=$(echo "$OUT" | tail -1); [ -d "$B" ] || { echo "coverage build failed"; exit 2; }
mkdir -p out/reach
for p in $PROPS; do
  find "$B" -name '*.gcda' -delete
  ./check "$p" --runs "$RUNS" --no-minimise > "out/reach/$p.log" 2>&1
  echo "$p: $(grep -c '^VIOLATION' "out/reach/$p.log") violations (coverage build, not believed), $(find "$B/lib" -name '*.gcda' | wc -l) data files"
  python3 tools/reach_report.py "$B" "$p" > "out/reach/$p.json" || exit 2
done
python3 - "$PROPS" <<'PY'
import json, sys
out = {"what": "gcov line/function reach of each property's quick workload over the source files the property is anchored in (reduced run count; -O0 build without sanitizers)", "properties": {}}
for p in sys.argv[1].split():
    out["properties"][p] = json.load(open("out/reach/%s.json" % p))
json.dump(out, open("selftest/reach.json", "w"), indent=1)
for p, r in out["properties"].items():
    for f, d in r["files"].items():
        print("%s %-55s lines %4d/%4d  functions never entered: %d" % (p, f, d["lines_hit"], d["lines"], len(d["functions_never_entered"])))
PY
