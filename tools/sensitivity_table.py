#!/usr/bin/env python3
"""Rewrites the table between <!-- SENSITIVITY-TABLE:BEGIN --> and <!-- SENSITIVITY-TABLE:END --> in DESIGN.md from
selftest/mutants.final.json (written by tools/selftest_mutants.sh all "" final)."""
import json, os, re

here = os.path.join(os.path.dirname(os.path.abspath(__file__)), "..")
res = json.load(open(os.path.join(here, "selftest", "mutants.final.json")))


def summary(change):
    if change.startswith("seeded/"):
        d = os.path.join(here, change)
        try:
            diff = open(os.path.join(d, "patch.diff")).read()
        except OSError:
            return ""
        files = sorted({m.group(1).split("/")[-1] for m in re.finditer(r"^\+\+\+ b/(\S+)", diff, re.M)})
        fn = re.search(r"^@@ .*@@ (.*)$", diff, re.M)
        where = ", ".join(files)
        if fn and fn.group(1).strip():
            where += ": `" + fn.group(1).strip()[:60].replace("|", "\\|") + "`"
        return where
    p = os.path.join(here, change + ".patch")
    try:
        diff = open(p).read()
    except OSError:
        return ""
    files = sorted({m.group(1).split("/")[-1] for m in re.finditer(r"^\+\+\+ b/(\S+)", diff, re.M)})
    return ", ".join(files)


rows = ["| change | property | verdict at quick budget | first violation class (property\\|oracle\\|trigger) | s | where |", "|---|---|---|---|---|---|"]
killed = 0
for r in res:
    cls = r["first_violation_class"].replace("|", "\\|")[:110]
    rows.append("| %s | %s | %s | %s | %d | %s |" % (r["change"], r["property"], r["verdict"], cls, r["seconds"], summary(r["change"])))
    killed += r["verdict"] == "KILLED"
rows.append("")
rows.append("%d of %d changes are reported by the quick check of their property." % (killed, len(res)))
p = os.path.join(here, "DESIGN.md")
s = open(p).read()
b, e = "<!-- SENSITIVITY-TABLE:BEGIN -->", "<!-- SENSITIVITY-TABLE:END -->"
i, j = s.index(b) + len(b), s.index(e)
open(p, "w").write(s[:i] + "\n" + "\n".join(rows) + "\n" + s[j:])
print("%d/%d killed" % (killed, len(res)))
