#!/bin/bash
# Runs the quick check of each property against each hand-written mutant (mutants/<property>/*.patch) and each seeded change
# (seeded/<id>/patch.diff, property from meta.json) in a scratch worktree; writes selftest/mutants.json.
# usage: tools/selftest_mutants.sh [mutants|seeded|all] [name-filter] [output-tag]
HERE="$(dirname "$(readlink -f "$0")")/.."; cd "$HERE"; WHAT="${1:-all}"; FILTER="${2:-}"; TAG="${3:-$WHAT}"
mkdir -p selftest; TMP=$(mktemp); echo "[" > "$TMP"; first=1
run() { # patch property label
  local t0=$(date +%s); local out; out=$(tools/try_patch.sh "$1" "$2" 2>&1); local verdict=$(echo "$out" | head -1 | cut -d' ' -f1); local t1=$(date +%s)
  local cls=$(echo "$out" | grep -m1 "^violation:" | sed 's/^violation: //' | cut -d' ' -f1)
  echo "$verdict $3 ($2) $cls [$((t1-t0))s]"
  [ $first = 1 ] || echo "," >> "$TMP"; first=0
  python3 -c "import json,sys; print(json.dumps({'change':sys.argv[1],'property':sys.argv[2],'verdict':sys.argv[3],'first_violation_class':sys.argv[4],'seconds':int(sys.argv[5])}))" "$3" "$2" "$verdict" "$cls" "$((t1-t0))" >> "$TMP"
}
if [ "$WHAT" = mutants ] || [ "$WHAT" = all ]; then for p in mutants/*/*.patch; do case "$p" in *"$FILTER"*) prop=$(basename "$(dirname "$p")"); run "$p" "$prop" "mutants/$prop/$(basename "$p" .patch)";; esac; done; fi
if [ "$WHAT" = seeded ] || [ "$WHAT" = all ]; then for d in seeded/*/; do [ -f "$d/patch.diff" ] || continue; case "$d" in *"$FILTER"*) prop=$(python3 -c "import json;print(json.load(open('$d/meta.json'))['property'])"); run "$d/patch.diff" "$prop" "seeded/$(basename "$d")";; esac; done; fi
echo "]" >> "$TMP"; python3 -c "import json,sys; json.dump(json.load(open(sys.argv[1])), open('selftest/mutants.$TAG.json','w'), indent=1)" "$TMP"; rm -f "$TMP"
