#!/usr/bin/env python3
"""Generates the hand-written sensitivity mutants of DESIGN.md Appendix E as patches under /verif/mutants/<property>/.
Each entry: (property, name, file, old text, new text). Patches are produced with `git diff` in a scratch worktree."""
import os, subprocess, sys
S = "/var/tmp/verif-scratch.wt"
HERE = os.path.dirname(os.path.dirname(os.path.realpath(__file__)))
M = [
 ("C02", "debool_accepts_empty", "ccl/rslang/src/ASTInterpreter.cpp", "if (value.B().Cardinality() != 1) {", "if (value.B().Cardinality() > 1) {"),
 ("C02", "cache_reference_dangles", "ccl/rslang/src/SDImplementation.cpp", "    current = boolean->GetCache(counter);\n  } else {\n    auto newData = Factory::EmptySet();\n    for (const auto& iter : itemIterators) {\n      newData.ModifyB().AddElement(*iter);\n    }\n    current = boolean->SaveCache(counter, newData);\n  }\n  return *current;", "    return boolean->GetCache(counter);\n  } else {\n    auto newData = Factory::EmptySet();\n    for (const auto& iter : itemIterators) {\n      newData.ModifyB().AddElement(*iter);\n    }\n    return boolean->SaveCache(counter, newData);\n  }"),
 ("C02", "recursion_type_of_step", "ccl/rslang/src/TypeAuditor.cpp", "  iterationValue = mergeWith(iterationValue.value(), initType.value());\n", ""),
 ("C04", "prune_ignores_shape", "ccl/core/src/semantic/rsmodel/rsValuesFacet.cpp", "  if (data.Structure() != type.Structure() ||\n      (data.IsTuple() && data.T().Arity() != type.T().Arity())) {\n    return false;\n  }\n", ""),
 ("C04", "silent_failure_struct", "ccl/rslang/src/TypeAuditor.cpp", "    if (!type.IsCollection()) {\n      OnError(SemanticEID::globalStructure, iter(0).pos.finish);\n      return false;", "    if (!type.IsCollection()) {\n      return false;"),
 ("C04", "loader_at_missing_uid", "ccl/core/src/JSON.cpp", "    if (!model.Contains(uid)) {\n      continue; // Note: data for a missing constituent is ignored\n    }\n", ""),
 ("C07", "no_graph_update_on_edit", "ccl/core/src/semantic/schema/Schema.cpp", "    if (realChange) {\n      graph.UpdateFor(target);\n", "    if (realChange) {\n"),
 ("C07", "dependants_not_reparsed", "ccl/core/src/semantic/schema/Schema.cpp", "    if (dependant != target) {\n      ParseCst(dependant);\n    }", "    if (dependant != target && false) {\n      ParseCst(dependant);\n    }"),
 ("C07", "term_change_skips_definitions", "ccl/core/src/semantic/thesaurus/Thesaurus.cpp", "  expansion = DefGraph().ExpandOutputs(expansion);\n  for (const auto entity : expansion) {\n    storage.at(entity).definition.UpdateFrom(Context());\n  }", "  expansion = DefGraph().ExpandOutputs(expansion);"),
 ("C08", "translate_offset_dropped", "ccl/rslang/src/RSExpr.cpp", "lex.RangeInBytes().start + offset)", "lex.RangeInBytes().start)"),
 ("C08", "translate_refs_forward", "ccl/cclLang/src/ManagedText.cpp", "for (auto ref = rbegin(refs); ref != rend(refs); ++ref) {", "for (auto ref = begin(refs); ref != end(refs); ++ref) {"),
 ("C09", "erase_keeps_tracking", "ccl/core/src/semantic/rsform/RSForm.cpp", "    mods->Erase(target);\n", ""),
 ("C09", "insert_position_strict", "ccl/core/src/semantic/rscore/CstList.cpp", "if (types(*it) <= insertType) {", "if (types(*it) < insertType) {"),
 ("C10", "convention_not_saved", "ccl/core/src/JSON.cpp", '    {"convention", record.convention},\n', '    {"convention", ""},\n'),
 ("C10", "tracking_flags_swapped", "ccl/core/src/JSON.cpp", '  object.at("editTerm").get_to(mods.term);\n  object.at("editDefinition").get_to(mods.definition);', '  object.at("editTerm").get_to(mods.definition);\n  object.at("editDefinition").get_to(mods.term);'),
 ("C11", "calculate_keeps_dependants", "ccl/core/src/semantic/rsmodel/rsCalculationFacet.cpp", "    const auto result = CalculateCstInternal(target);\n    core.ResetDependants(target);", "    const auto result = CalculateCstInternal(target);"),
 ("C11", "add_element_keeps_dependants", "ccl/core/src/semantic/rsmodel/rsValuesFacet.cpp", "    const auto resultID = storage->AddInterpretantFor(target, name);\n    core.ResetDependants(target);", "    const auto resultID = storage->AddInterpretantFor(target, name);"),
 ("C12", "superpose_skips_substitution", "ccl/cclGraph/include/ccl/Entity.hpp", "    SubstituteValues(second);\n    for (const auto& iter : second.relations) {", "    for (const auto& iter : second.relations) {"),
 ("C12", "dedupe_translation_swapped", "ccl/core/src/semantic/rsform/RSForm.cpp", "            step.Insert(copy, original);", "            step.Insert(original, copy);"),
 ("C14", "erase_leaves_reverse_link", "ccl/cclGraph/src/CGraph.cpp", "  for (const auto source : graph[itemID].inputs) {\n    auto& outputs = graph[source].outputs;\n    outputs.erase(std::find(begin(outputs), end(outputs), itemID));\n  }\n  graph[itemID].isValid = false;", "  graph[itemID].isValid = false;"),
 ("C14", "set_inputs_keeps_old", "ccl/cclGraph/src/CGraph.cpp", "  const auto itemID = AddInternal(item);\n  for (const auto source : graph[itemID].inputs) {\n    auto& outputs = graph[source].outputs;\n    outputs.erase(std::find(begin(outputs), end(outputs), itemID));\n  }\n  graph[itemID].inputs.clear();", "  const auto itemID = AddInternal(item);"),
 ("C15", "unique_data_threshold", "ccl/rslang/src/StructuredData.cpp", "if (data.use_count() > 1) {", "if (data.use_count() > 2) {"),
 ("C15", "iterator_equality_asymmetric", "ccl/rslang/src/SDImplementation.cpp", "  if (isCompleted || rhs.isCompleted) {\n    return isCompleted == rhs.isCompleted;\n  } else {\n    return counter == rhs.counter;\n  }\n}\n\nSDDecartian::Iterator& SDDecartian::Iterator::operator++()", "  if (isCompleted && rhs.isCompleted) {\n    return true;\n  } else if (rhs.isCompleted) {\n    return false;\n  } else {\n    return counter == rhs.counter;\n  }\n}\n\nSDDecartian::Iterator& SDDecartian::Iterator::operator++()"),
 ("C16", "empty_set_one_zero_short", "ccl/rslang/src/SDataCompact.cpp", "    case rslang::StructureType::basic:\n    case rslang::StructureType::collection:\n      compact.back().emplace_back(0); break;", "    case rslang::StructureType::collection:\n      compact.back().emplace_back(0); break;\n    case rslang::StructureType::basic:"),
 ("C17", "resolved_offset_sign", "ccl/cclLang/src/RefsManager.cpp", "difLen += resolvedLength - unresolvedLength;", "difLen += unresolvedLength - resolvedLength;"),
 ("C17", "shift_includes_inserted", "ccl/cclLang/src/RefsManager.cpp", "    for (auto shiftIt = next(pos); shiftIt != end(refs); ++shiftIt) {", "    for (auto shiftIt = pos; shiftIt != end(refs); ++shiftIt) {"),
 ("C18", "parser_log_not_cleared", "ccl/rslang/src/Parser.cpp", "  log.Clear();\n  return parser.Parse(Lex(expr, syntaxHint));", "  return parser.Parse(Lex(expr, syntaxHint));"),
 ("C18", "iteration_counter_not_reset", "ccl/rslang/src/ASTInterpreter.cpp", "  iterationCounter = 0;\n", ""),
 ("C18", "function_args_not_cleared", "ccl/rslang/src/TypeAuditor.cpp", "  functionArgs.clear();\n", ""),
 ("C18", "static_generator_syntax_after", "ccl/rslang/src/GeneratorImplAST.cpp", "  generator.SetSyntax(syntax);\n  generator.Clear();\n  ast.Root().DispatchVisit(generator);\n", "  generator.Clear();\n  ast.Root().DispatchVisit(generator);\n  generator.SetSyntax(syntax);\n"),
 ("C19", "guard_covers_child_checks", "ccl/core/src/oss/ossOperationsFacet.cpp", "  const auto stored = [&] {", "  const auto guardAll = core.DndGuard();\n  const auto stored = [&] {"),
 ("C19", "erase_keeps_grid_cell", "ccl/core/src/oss/OSSchema.cpp", "    grid->Erase(target);\n", ""),
 ("C19", "core_change_not_outdated", "ccl/core/src/oss/OSSchema.cpp", "      operation->outdated = true;\n", ""),
]
def sh(*a, **k): return subprocess.run(a, check=True, capture_output=True, text=True, **k).stdout
def main():
    if not os.path.isdir(S): sh("git", "-C", "/repo", "worktree", "add", "-f", S, "HEAD")
    sh("git", "-C", S, "checkout", "-q", "--detach", sh("git", "-C", "/repo", "rev-parse", "HEAD").strip())
    bad = 0
    for prop, name, f, old, new in M:
        sh("git", "-C", S, "checkout", "-q", "--", ".")
        p = os.path.join(S, f); s = open(p).read()
        if s.count(old) != 1:
            print("SITE NOT UNIQUE/FOUND:", prop, name, s.count(old)); bad += 1; continue
        open(p, "w").write(s.replace(old, new, 1))
        d = os.path.join(HERE, "mutants", prop); os.makedirs(d, exist_ok=True)
        open(os.path.join(d, name + ".patch"), "w").write(sh("git", "-C", S, "diff"))
    sh("git", "-C", S, "checkout", "-q", "--", ".")
    print("generated", len(M) - bad, "patches;", bad, "problems")
    return 1 if bad else 0
if __name__ == "__main__": sys.exit(main())
