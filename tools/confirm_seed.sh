#!/bin/bash
# usage: tools/confirm_seed.sh <Cxx> [worktree-prefix=seed] [stored-letters="A B"] — re-verifies the two changes an independent sub-agent left in /tmp/<prefix>-<Cxx>/deliver
# (applies alone to clean HEAD, existing suites pass with it, demonstration fails with and passes without it) and, when
# confirmed, stores them as /verif/seeded/<Cxx>-<A|B>/ {patch.diff, demo.cpp, notes.md, meta.json}.
P="$1"; PFX="${2:-seed}"; read -r LA LB <<< "${3:-A B}"; WT=/tmp/$PFX-$P; D=$WT/deliver; HERE="$(dirname "$(readlink -f "$0")")/.."
cd "$WT" || exit 2; git checkout -q -- . ; 
for X in A B; do
  [ -f "$D/$X.diff" ] || { echo "$P-$X: no diff"; continue; }
  git checkout -q -- .; git apply --check "$D/$X.diff" || { echo "$P-$X: DOES NOT APPLY"; continue; }
  git apply "$D/$X.diff"
  T=$(/var/tmp/seedkit/run_tests.sh "$WT" 2>&1 | tail -8); echo "$T" | grep -q "exit=0" && tests=pass || tests=FAIL
  /var/tmp/seedkit/build_demo.sh "$WT" "$D/demo$X.cpp" "$WT/demo$X.mut" >/dev/null 2>&1; timeout 120 "$WT/demo$X.mut" > "$WT/demo$X.mut.out" 2>&1; rcm=$?
  git checkout -q -- .
  /var/tmp/seedkit/build_demo.sh "$WT" "$D/demo$X.cpp" "$WT/demo$X.ok" >/dev/null 2>&1; timeout 120 "$WT/demo$X.ok" > "$WT/demo$X.ok.out" 2>&1; rco=$?
  echo "$P-$X: tests=$tests demo_with_change_rc=$rcm demo_pristine_rc=$rco"
  if [ $tests = pass ] && [ $rcm -ne 0 ] && [ $rco -eq 0 ]; then
    SX=$LA; [ $X = B ] && SX=$LB; O="$HERE/seeded/$P-$SX"; mkdir -p "$O"; cp "$D/$X.diff" "$O/patch.diff"; cp "$D/demo$X.cpp" "$O/demo.cpp"; cp "$D/notes.md" "$O/notes.md"
    python3 - "$O" "$P" "$SX" "$rcm" "$X" <<'PY'
import json,sys
o,p,x,rc,orig=sys.argv[1:6]
json.dump({"property":p,"change":x,"source":"independent sub-agent given only the property text and a scratch worktree",
 "needs_to_manifest":"see notes.md (section for change %s)"%orig,
 "confirmed":{"applies_to_clean_HEAD":True,"pinned_and_upstream_suites_pass_with_change":True,"demo_exit_with_change":int(rc),"demo_exit_pristine":0,
   "how":"tools/confirm_seed.sh: git apply in the agent's scratch worktree, /var/tmp/seedkit/run_tests.sh (cclCommons/cclGraph/cclLang pinned suites + upstream rslang 248 and core 446 gtests), demo built against the changed and the pristine tree"}},
 open(o+"/meta.json","w"),indent=1)
PY
  fi
done
git checkout -q -- .
