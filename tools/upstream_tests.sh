#!/bin/bash
# Optional safety net (not a registered check): builds the upstream rslang and core gtest suites, which the pinned
# baseline does not build (-Werror), against the sanitizer build of the current tree and runs them.
# Usage: tools/upstream_tests.sh [repo]   — scratch output under /var/tmp, removed afterwards.
set -e
REPO="${1:-/repo}"; HERE="$(dirname "$(readlink -f "$0")")/.."
B=$(VERIF_REPO="$REPO" "$HERE/build.sh" lib)
S=$(mktemp -d /var/tmp/verif-upstream.XXXXXX); trap 'rm -rf "$S"' EXIT
C="$REPO/ccl"; INC="-I$C/cclCommons/include -I$C/cclGraph/include -I$C/cclLang/include -I$C/rslang/include -I$C/core/include -I$C/rslang/header -I$C/rslang/import/reflex/include"
g++ -std=c++20 -O0 -g0 -w -DNDEBUG $INC -I$C/rslang/test/utils $C/rslang/test/unity/rslTest.cpp "$B/libccl.a" -fsanitize=address,undefined -lgtest -lgtest_main -lpthread -o "$S/rslTest" &
g++ -std=c++20 -O0 -g0 -w -DNDEBUG $INC -I$C/core/test/utils -I$C/cclLang/test/utils $C/core/test/unity/cclTest.cpp "$B/libccl.a" -fsanitize=address,undefined -lgtest -lgtest_main -lpthread -o "$S/cclTest" &
wait
rc=0
ASAN_OPTIONS=detect_leaks=0 "$S/rslTest" 2>&1 | tail -3 || rc=1
ASAN_OPTIONS=detect_leaks=0 "$S/cclTest" 2>&1 | tail -3 || rc=1
exit $rc
