#!/usr/bin/env python3
"""reach_report.py <build dir> <property>: gcov summary (JSON on stdout) for the .cpp files the property is anchored in."""
import gzip, json, os, subprocess, sys, tempfile

build, prop = sys.argv[1], sys.argv[2]
here = os.path.join(os.path.dirname(os.path.abspath(__file__)), "..")
anchors = None
for line in open(os.path.join(here, "properties.jsonl")):
    p = json.loads(line)
    if p["id"] == prop:
        anchors = p["anchors"]["files"]
res = {"files": {}}
for f in anchors or []:
    if not f.endswith(".cpp"):
        continue
    rel = f[len("ccl/"):] if f.startswith("ccl/") else f
    obj = os.path.join(build, "lib", rel[:-4] + ".o")
    gcda = obj[:-2] + ".gcda"
    if not os.path.exists(gcda):
        res["files"][f] = {"lines": 0, "lines_hit": 0, "functions": 0, "functions_never_entered": ["<no data: file never executed>"]}
        continue
    with tempfile.TemporaryDirectory() as tmp:
        r = subprocess.run(["gcov", "-j", "-o", os.path.dirname(obj), obj], cwd=tmp, capture_output=True, text=True)
        lines = hit = 0
        fn_total, never = 0, []
        for g in os.listdir(tmp):
            if not g.endswith(".gcov.json.gz"):
                continue
            j = json.load(gzip.open(os.path.join(tmp, g)))
            for ff in j["files"]:
                if not ff["file"].endswith(rel):
                    continue
                for ln in ff["lines"]:
                    lines += 1
                    hit += 1 if ln["count"] > 0 else 0
                for fn in ff["functions"]:
                    fn_total += 1
                    if fn["execution_count"] == 0:
                        never.append(fn["demangled_name"])
        res["files"][f] = {"lines": lines, "lines_hit": hit, "functions": fn_total, "functions_never_entered": sorted(set(never))}
json.dump(res, sys.stdout, indent=1)
