#!/bin/bash
# usage: tools/try_patch.sh <patch.diff> <property> [<property>...]
# Applies the patch to a scratch worktree of /repo (outside /repo and /verif), runs the quick check of each property against
# it (VERIF_REPO) and prints one line per property: KILLED (exit 1 with VIOLATION) / SURVIVED (exit 0) / MACHINERY (exit 2).
# The scratch worktree and its build directory are reused between calls (incremental builds); `tools/try_patch.sh --clean` removes them.
HERE="$(dirname "$(readlink -f "$0")")/.."; S=/var/tmp/verif-scratch.wt
if [ "$1" = "--clean" ]; then git -C /repo worktree remove --force "$S" 2>/dev/null; git -C /repo worktree prune; KEY=$(printf '%s|%s' "$S" "asan" | md5sum | cut -c1-10); rm -rf "$HERE/build/$KEY"; exit 0; fi
PATCH="$(readlink -f "$1")"; shift
[ -d "$S" ] || git -C /repo worktree add -f "$S" HEAD >/dev/null 2>&1 || { echo "cannot create scratch worktree"; exit 2; }
git -C "$S" checkout -q --detach "$(git -C /repo rev-parse HEAD)" && git -C "$S" checkout -q -- . && git -C "$S" clean -fdq
git -C "$S" apply "$PATCH" || { echo "PATCH DOES NOT APPLY: $PATCH"; exit 2; }
for P in "$@"; do
  OUT=$(VERIF_REPO="$S" VERIF_EVIDENCE_DIR="$HERE/out/scratch-evidence" "$HERE/check" "$P" ${VERIF_TRY_ARGS} 2>&1); RC=$?
  case $RC in 1) R=KILLED;; 0) R=SURVIVED;; *) R="MACHINERY($RC)";; esac
  echo "$R property=$P patch=$(basename "$(dirname "$PATCH")")/$(basename "$PATCH")"
  echo "$OUT" | grep -E "^violation:|^VIOLATION|^KNOWN|MACHINERY|BUILD FAILED" | cut -c1-400 | head -5
done
git -C "$S" checkout -q -- .
