#!/bin/bash
# Build library objects from the current working tree of $VERIF_REPO (default /repo) with hooks on,
# plus the simulation engines. Incremental; serialised by flock so concurrent checks share one build.
set -e
HERE="$(dirname "$(readlink -f "$0")")"
REPO="${VERIF_REPO:-/repo}"
SANTAG="${VERIF_SAN:-asan}"
case "$SANTAG" in
  asan)  SAN="-fsanitize=address,undefined -fno-sanitize-recover=undefined"; OPT="-O1 -g1";;
  plain) SAN=""; OPT="-O1 -g1";;
  cov)   SAN="--coverage -DVERIF_COVERAGE"; OPT="-O0 -g1";;   # reach measurement (tools/reach.sh), not used by any check
  *) echo "unknown VERIF_SAN=$SANTAG" >&2; exit 2;;
esac
KEY=$(printf '%s|%s' "$REPO" "$SANTAG" | md5sum | cut -c1-10)
B="$HERE/build/$KEY"
mkdir -p "$B"
exec 9>"$B/.lock"
flock 9
if ! make -s -f "$HERE/Makefile" V="$HERE" -j"${VERIF_JOBS:-16}" REPO="$REPO" B="$B" SAN="$SAN" OPT="$OPT" "${@:-all}" >"$B/build.log" 2>&1; then
  echo "BUILD FAILED (see $B/build.log)" >&2
  tail -40 "$B/build.log" >&2
  exit 2
fi
echo "$B"
