# Builds the real ConceptCore library objects from $(REPO)'s working tree (per file, hooks on,
# ASan+UBSan) and the simulation engines. Driven by build.sh (flock-serialised).
REPO ?= /repo
V    ?= /verif
B    ?= $(V)/build/default
CXX  := g++
SAN  ?= -fsanitize=address,undefined -fno-sanitize-recover=undefined
OPT  ?= -O1 -g1
CXXFLAGS := -std=c++20 $(OPT) -w -DNDEBUG -DCONCEPTCORE_VERIF -fno-omit-frame-pointer $(SAN)
RFXFLAGS := -std=c++20 $(OPT) -w -DNDEBUG -fno-omit-frame-pointer $(filter -fsanitize=address,$(subst $(comma), ,$(SAN)))
comma := ,
C := $(REPO)/ccl
INC := -I$(C)/cclCommons/include -I$(C)/cclGraph/include -I$(C)/cclLang/include \
       -I$(C)/rslang/include -I$(C)/core/include -I$(C)/rslang/header \
       -I$(C)/rslang/import/reflex/include -I$(C)/rslang/import/include -I$(REPO)/pyconcept/include

LIB_SRCS := $(wildcard $(C)/cclGraph/src/*.cpp) $(wildcard $(C)/cclLang/src/*.cpp) \
            $(wildcard $(C)/rslang/src/*.cpp) \
            $(wildcard $(C)/core/src/*.cpp) $(wildcard $(C)/core/src/*/*.cpp) $(wildcard $(C)/core/src/*/*/*.cpp)
RFX_NAMES := lib/convert lib/debug lib/error lib/input lib/matcher lib/simd lib/pattern lib/posix \
             lib/unicode lib/utf8 unicode/block_scripts unicode/language_scripts unicode/letter_scripts unicode/composer
RFX_SRCS := $(addprefix $(C)/rslang/import/reflex/,$(addsuffix .cpp,$(RFX_NAMES)))

LIB_OBJS := $(patsubst $(C)/%.cpp,$(B)/lib/%.o,$(LIB_SRCS))
RFX_OBJS := $(patsubst $(C)/%.cpp,$(B)/rfx/%.o,$(RFX_SRCS))
PYC_OBJ  := $(B)/lib/pyconcept.o

ENGINES := $(basename $(notdir $(wildcard $(V)/engines/*.cpp)))
ENGINE_BINS := $(addprefix $(B)/bin/,$(ENGINES))
KIT_HDRS := $(wildcard $(V)/kit/*.hpp)

.PHONY: all lib
all: $(ENGINE_BINS)
lib: $(B)/libccl.a

$(B)/lib/%.o: $(C)/%.cpp
	@mkdir -p $(dir $@)
	$(CXX) $(CXXFLAGS) $(INC) -MMD -MP -c $< -o $@

$(B)/rfx/%.o: $(C)/%.cpp
	@mkdir -p $(dir $@)
	$(CXX) $(RFXFLAGS) $(INC) -MMD -MP -c $< -o $@

$(PYC_OBJ): $(REPO)/pyconcept/src/pyconcept.cpp $(V)/kit/stub/pybind11/pybind11.h
	@mkdir -p $(dir $@)
	$(CXX) $(CXXFLAGS) -I$(V)/kit/stub $(INC) -MMD -MP -c $< -o $@

$(B)/libccl.a: $(LIB_OBJS) $(RFX_OBJS) $(PYC_OBJ)
	@rm -f $@
	ar rcs $@ $^

$(B)/eng/%.o: $(V)/engines/%.cpp $(KIT_HDRS)
	@mkdir -p $(dir $@)
	$(CXX) $(CXXFLAGS) $(INC) -I$(V)/kit -MMD -MP -c $< -o $@

$(B)/kit/simkit.o: $(V)/kit/simkit.cpp $(KIT_HDRS)
	@mkdir -p $(dir $@)
	$(CXX) $(CXXFLAGS) $(INC) -I$(V)/kit -c $< -o $@

$(B)/bin/%: $(B)/eng/%.o $(B)/kit/simkit.o $(B)/libccl.a
	@mkdir -p $(dir $@)
	$(CXX) $(CXXFLAGS) $< $(B)/kit/simkit.o $(B)/libccl.a -o $@

.SECONDARY:

-include $(LIB_OBJS:.o=.d) $(RFX_OBJS:.o=.d) $(PYC_OBJ:.o=.d) $(patsubst %,$(B)/eng/%.d,$(ENGINES))
