// schemasim — C07, C08, C09, C10, C12 and the schema facet of C04: 1-3 RSForm documents edited by simulated
// editor clients in scheduler-chosen interleaving, with a simulated document store (checkpoint / crash / restart,
// storage faults), seeded identifier source (hook H1) and oracles after every step.
#include "schemakit.hpp"

#include "ccl/ops/RSOperations.h"
#include "ccl/api/RSFormJA.h"
#include "ccl/rslang/RSGenerator.h"
#include "ccl/rslang/Parser.h"

std::string CheckSchema(const std::string& jSchema);
std::string ResetAliases(const std::string& jSchema);
std::string ConvertToASCII(const std::string& expression);
std::string ConvertToMath(const std::string& expression);
std::string ParseExpression(const std::string& expression);
std::string CheckExpression(const std::string& jSchema, const std::string& expression);
std::string CheckConstituenta(const std::string& jSchema, const std::string& alias, const std::string& expression, const std::string& cstType);

using namespace sim;
using namespace sk;
using semantic::ParsingStatus;

namespace {

struct Snap {   // texts of one constituent before an op
  EntityUID uid{}; std::string alias; CstType type{}; std::string def, conv, term, text;
  ParsingStatus status{}; std::string typeStr, argsStr; std::set<EntityUID> inputs;
};

struct Doc {
  std::unique_ptr<RSForm> f;
  std::string saved, prev; bool hasSaved{ false };
  std::set<EntityUID> erased;   // uids removed by a successful Erase and not re-issued since
};

class SchemaSim final : public Engine {
  std::vector<Doc> docs;
  std::string focus;
  SimTextProc* proc{ nullptr };
  size_t maxCst{ 12 };
  bool exploded{ false };   // resolved texts grew beyond the cut-off (cyclic term references double on every update): the run ends quietly

  bool Is(const char* p) const { return focus == p; }

  // ---------------------------------------------------------------- helpers
  RSForm& F(size_t d) { return *docs[d % docs.size()].f; }
  std::optional<EntityUID> Target(size_t d, int64_t i) { const auto l = ListOf(F(d)); if (l.empty()) return std::nullopt; return l[static_cast<size_t>(i) % l.size()]; }

  std::vector<Snap> Snapshot(const RSForm& f, bool withGraph) {
    std::vector<Snap> v;
    for (const auto uid : f.List()) {
      Snap s; s.uid = uid; const auto& rs = f.GetRS(uid); const auto& tx = f.GetText(uid); const auto& p = f.GetParse(uid);
      s.alias = rs.alias; s.type = rs.type; s.def = rs.definition; s.conv = rs.convention; s.term = tx.term.Text().Raw(); s.text = tx.definition.Raw();
      s.status = p.status; s.typeStr = TypeStr(p); s.argsStr = ArgsStr(p);
      if (withGraph) { const auto in = f.RSLang().Graph().InputsFor(uid); s.inputs = std::set<EntityUID>(in.begin(), in.end()); }
      v.push_back(s);
    }
    return v;
  }
  static const Snap* Find(const std::vector<Snap>& v, EntityUID uid) { for (auto& s : v) if (s.uid == uid) return &s; return nullptr; }
  static std::set<std::string> Mentions(const std::vector<Snap>& v) {
    std::set<std::string> m;
    for (auto& s : v) { for (auto& g : idscan::Globals(s.def)) m.insert(g); for (auto& g : idscan::Globals(s.conv)) m.insert(g); for (auto& g : refscan::Entities(s.term)) m.insert(g); for (auto& g : refscan::Entities(s.text)) m.insert(g); }
    return m;
  }

  // texts of every constituent after a translation: expected = simultaneous map on whole identifiers / entity references
  bool CheckTranslated(Ctx& c, const RSForm& f, const std::vector<Snap>& before, const std::map<std::string, std::string>& m, const std::string& trig, const std::set<EntityUID>& skip = {}) {
    c.Oracle("translated_texts");
    const char* tp = Is("C12") ? "C12" : "C08";   // "every mention of a removed or renamed constituent is rewritten to its image" is C12's own clause for its operations
    for (auto& s : before) {
      if (skip.count(s.uid) || !f.Contains(s.uid)) continue;
      const auto& rs = f.GetRS(s.uid); const auto& tx = f.GetText(s.uid);
      auto disc = [&](const std::string& text) { for (auto& [o, n] : m) for (auto& [o2, n2] : m) if (o != o2 && (o2.rfind(o, 0) == 0)) return std::string("/prefix-name"); (void)text; return m.size() > 1 ? std::string("/multi") : std::string(); };
      if (const auto e = idscan::Translate(s.def, m); rs.definition != e) { c.Fail(tp, "translated_definition", trig + disc(s.def), s.alias + ": definition '" + s.def + "' became '" + rs.definition + "' expected '" + e + "'"); return false; }
      if (const auto e = idscan::Translate(s.conv, m); rs.convention != e) { c.Fail(tp, "translated_convention", trig, s.alias + ": convention '" + s.conv + "' became '" + rs.convention + "' expected '" + e + "'"); return false; }
      if (const auto e = refscan::TranslateRefs(s.term, m); tx.term.Text().Raw() != e) { c.Fail(tp, "translated_term", trig, s.alias + ": term '" + s.term + "' became '" + tx.term.Text().Raw() + "' expected '" + e + "'"); return false; }
      if (const auto e = refscan::TranslateRefs(s.text, m); tx.definition.Raw() != e) { c.Fail(tp, "translated_textdef", trig, s.alias + ": text definition '" + s.text + "' became '" + tx.definition.Raw() + "' expected '" + e + "'"); return false; }
    }
    return true;
  }
  // same schema up to the renaming: edges, statuses, typifications with the name substituted
  bool CheckMeaning(Ctx& c, const RSForm& f, const std::vector<Snap>& before, const std::map<std::string, std::string>& m, const std::string& trig) {
    c.Oracle("meaning_preserved");
    for (auto& s : before) {
      if (!f.Contains(s.uid)) continue;
      const auto& p = f.GetParse(s.uid);
      const auto in = f.RSLang().Graph().InputsFor(s.uid);
      if (std::set<EntityUID>(in.begin(), in.end()) != s.inputs) { c.Fail("C08", "meaning_edges", trig, s.alias + ": dependency inputs changed by a pure renaming"); return false; }
      if (p.status != s.status) { c.Fail("C08", "meaning_status", trig, s.alias + " (" + s.def + "): parse status changed by a pure renaming from " + std::to_string((int)s.status) + " to " + std::to_string((int)p.status)); return false; }
      if (const auto e = idscan::Translate(s.typeStr, m); TypeStr(p) != e) { c.Fail("C08", "meaning_type", trig, s.alias + ": typification " + TypeStr(p) + " expected " + e); return false; }
      if (const auto e = idscan::Translate(s.argsStr, m); ArgsStr(p) != e) { c.Fail("C08", "meaning_args", trig, s.alias + ": arguments " + ArgsStr(p) + " expected " + e); return false; }
    }
    return true;
  }

  int dupPending{ 0 };   // generation only: a duplicate definition was just produced; collapse duplicates soon, while the pair still exists
  // ---------------------------------------------------------------- generation helpers
  std::string GenDefFor(Ctx& c, const RSForm& f, CstType type) {
    auto& r = c.gen;
    const auto env = EnvOf(f);
    exprgen::Gen g(r, env, static_cast<int>(c.C("expr_depth", 2)));
    g.siblingReuse = r.Pct(12); g.nearMiss = r.Pct(25) ? 10 : 0;
    std::string def;
    if (r.Pct(static_cast<int>(c.C("p_dup", 8)))) {   // duplicate of an existing definition (same text or same tree, different spelling)
      std::vector<std::string> defs; for (const auto uid : f.List()) if (!f.GetRS(uid).definition.empty() && (f.GetRS(uid).type == type || r.Pct(20))) defs.push_back(f.GetRS(uid).definition);   // mostly of the same kind: only those are duplicates
      if (!defs.empty()) { def = r.Pick(defs); c.Probe("duplicate_definition_generated"); dupPending = 3; if (r.Pct(40)) def = r.Pct(35) ? exprgen::Regroup(r, def) : r.Pct(50) ? " " + def + " " : "(" + def + ")"; return def; }
    }
    switch (type) {
    case CstType::base: case CstType::constant: def = r.Pct(92) ? "" : g.TopLevel(false); break;
    case CstType::structured: def = r.Pct(82) ? g.StructureDef() : (r.Pct(50) && !env.allAliases.empty()) ? r.Pick(env.allAliases) : g.TopLevel(false); break;   // sometimes just the name of some global (a set, an element, a statement)
    case CstType::axiom: case CstType::theorem: def = r.Pct(92) ? g.TopLevel(true) : g.TopLevel(false); break;
    case CstType::term: def = r.Pct(92) ? g.TopLevel(false) : g.TopLevel(true); break;
    case CstType::function: def = r.Pct(90) ? g.FunctionDef(false) : g.TopLevel(false); break;
    default: def = r.Pct(90) ? g.FunctionDef(true) : g.TopLevel(true); break;
    }
    if (r.Pct(static_cast<int>(c.C("p_mutant", 15)))) def = exprgen::Mutate(r, def, env);
    if (Is("C04") && r.Pct(25)) def = exprgen::Damage(r, def);
    return def;
  }
  CstType GenType(Ctx& c, const RSForm& f) {
    auto& r = c.gen; const auto n = f.Core().size();
    if (n < 2 || r.Pct(15)) return r.Pct(80) ? CstType::base : CstType::constant;
    static const std::vector<int> w{ 2, 1, 3, 2, 8, 2, 1, 1 };
    return AllTypes()[r.Weighted(w)];
  }
  std::string GenAlias(Ctx& c, CstType type) {
    auto& r = c.gen;
    const int k = static_cast<int>(r.Below(100));
    if (k < 70) return std::string(1, LetterOf(type)) + std::to_string(r.Range(1, 14));
    if (k < 80) return std::string(1, LetterOf(type)) + std::to_string(r.Range(1, 3)) + std::to_string(r.Range(0, 9));   // X1 / X11 style prefixes
    if (k < 90) return std::string(1, "XCSDAFTP"[r.Below(8)]) + std::to_string(r.Range(1, 9));                        // wrong letter
    static const std::vector<std::string> bad{ "", "X", "X1a", "Y1", "x1", "D 1", "X01x", "D-1", "1D" };
    return r.Pick(bad);
  }
  std::vector<std::string> Aliases(const RSForm& f) { std::vector<std::string> v; for (const auto uid : f.List()) v.push_back(f.GetRS(uid).alias); return v; }

public:
  const char* Name() const override { return "schemasim"; }
  std::vector<std::string> Properties() const override { return { "C07", "C08", "C09", "C10", "C12", "C04" }; }
  uint64_t DefaultRuns(const std::string& focus_, bool thorough) const override {
    (void)focus_; return thorough ? 500000 : 12000;
  }
  Cfg GenCfg(Rng& r, const std::string& focus_, bool thorough) override {
    Cfg c;
    c["steps"] = thorough ? r.Range(8, 80) : r.Range(8, 45);   // thorough: longer histories
    c["docs"] = r.Range(1, 3);
    c["max_cst"] = r.Range(5, 14);
    c["uid_policy"] = r.Range(0, 4); c["uid_range"] = r.Range(8, 24);
    c["expr_depth"] = r.Range(1, 3);
    c["p_mutant"] = r.Pct(30) ? 0 : r.Range(5, 40);
    c["p_dup"] = r.Range(0, 15);
    c["inflect_limit"] = r.Pct(88) ? 24 : 0;   // 0: unbounded inflector stub (cyclic term references may then explode, KF-C04-1)
    c["observe"] = r.Pct(60) ? 1 : r.Pct(60) ? r.Range(2, 5) : 0;    // every step / every k-th / end only
    c["w_create"] = r.Range(3, 8); c["w_expr"] = r.Range(2, 8); c["w_text"] = r.Range(0, 6); c["w_rename"] = r.Range(0, 4);
    c["w_struct"] = r.Range(1, 4); c["w_track"] = r.Range(0, 2); c["w_ops"] = r.Range(0, 3); c["w_persist"] = r.Range(0, 3); c["w_api"] = r.Range(0, 2);
    if (focus_ == "C08") { c["w_rename"] = r.Range(4, 10); c["observe"] = 1; if (r.Pct(55)) { c["w_ops"] = r.Range(2, 5); c["p_dup"] = r.Range(15, 45); c["ops_dedupe_bias"] = 1; c["w_text"] = r.Range(2, 6); } }   // "every other identifier translation": duplicate collapse / equation with text mentions
    if (focus_ == "C09") { c["w_struct"] = r.Range(2, 6); c["w_track"] = r.Range(1, 4); c["p_dup"] = r.Range(15, 45); c["w_ops"] = r.Range(1, 4); c["ops_dedupe_bias"] = 1; }
    if (focus_ == "C10") { c["w_persist"] = r.Range(3, 8); c["w_text"] = r.Range(2, 8); }
    if (focus_ == "C12") { c["w_ops"] = r.Range(4, 10); c["docs"] = r.Range(2, 3); c["p_mutant"] = r.Pct(60) ? 0 : r.Range(5, 20); if (r.Pct(35)) { c["p_dup"] = r.Range(15, 45); c["ops_dedupe_bias"] = 1; c["w_text"] = r.Range(2, 6); } }
    if (focus_ == "C04") { c["w_api"] = r.Range(3, 8); c["w_persist"] = r.Range(3, 8); c["p_mutant"] = r.Range(20, 60); }
    return c;
  }
  void Begin(Ctx& c) override {
    focus = c.focus; dupPending = 0;
    proc = InstallTextProc(); proc->limit = static_cast<size_t>(c.C("inflect_limit", 24));
    c.Count("knob.inflect_limit=" + std::to_string(proc->limit));
    docs.clear(); docs.resize(static_cast<size_t>(c.C("docs", 1)));
    for (auto& d : docs) d.f = std::make_unique<RSForm>();
    maxCst = static_cast<size_t>(c.C("max_cst", 12)); exploded = false;
    c.Count("knob.uid_policy=" + std::to_string(c.C("uid_policy")));
    c.Count("knob.observe=" + std::to_string(c.C("observe")));
  }
  void Destroy() override { docs.clear(); RemoveTextProc(); proc = nullptr; }
  std::string CrashProperty(const std::string&, const Op&) const override { return "C04"; }
  std::vector<std::string> RealComponents() const override { return { "ccl::semantic::RSForm / RSCore / Schema / Thesaurus / CstList / IdentityManager / rsModificationFacet / rsOperationFacet", "ccl::ops::BinarySynthes / RSEquationProcessor", "rslang lexers, parser, auditors, generators", "cclLang reference manager", "cclGraph", "JSON (de)serialisation (nlohmann + ccl/tools/JSON)", "api::RSFormJA, pyconcept wrapper functions (native, stub pybind11)" }; }
  std::vector<std::string> StubComponents() const override { return { "identifier entropy (hook H1: uniform / small range with collisions / ascending / descending / extremes)", "text processor (Inflect = t~tags)", "document store (simulator-owned: last saved bytes, previous version, storage faults)" }; }
  std::string Rule(const std::string& f) const override;
  std::vector<std::string> Assumptions(const std::string& f) const override;

  bool GenOp(Ctx& c, Op& op) override;
  void Exec(Ctx& c, const Op& op) override;
  void End(Ctx& c) override { Observe(c, "end", true); }

private:
  void Observe(Ctx& c, const std::string& trig, bool force);
  void ExecEdit(Ctx& c, const Op& op);
  void ExecOps(Ctx& c, const Op& op);
  void ExecPersist(Ctx& c, const Op& op);
  void ExecApi(Ctx& c, const Op& op);
  bool CheckRoundTrip(Ctx& c, const RSForm& f, const std::string& trig, std::string* outJson);
  std::string Corrupt(Ctx& c, const Op& op, const std::string& doc, std::string& kind);
};

#include "schemasim_gen.inc"
#include "schemasim_edit.inc"
#include "schemasim_ops.inc"
#include "schemasim_persist.inc"

} // namespace

int main(int argc, char** argv) { SchemaSim e; return sim::Main(argc, argv, e); }
