// valuesim — C15: a heap of aliased StructuredData handles and iterator clients against a reference
// model of mathematical values; cache-limit knob (hook H2) so lazy-set cache eviction is routine.
#include "simkit.hpp"

#include "ccl/rslang/StructuredData.h"

#include <memory>

using namespace sim;
using ccl::object::Factory;
using ccl::object::StructuredData;
using ccl::object::SDIterator;
namespace rslang = ccl::rslang;

namespace {

// ---- mathematical values (canonical: set items sorted + unique by the model's own order)
struct MV {
  int kind{ 0 };   // 0 element, 1 tuple, 2 set
  int val{ 0 };
  std::vector<MV> items;
  bool operator==(const MV& o) const { return kind == o.kind && val == o.val && items == o.items; }
  bool operator<(const MV& o) const {
    if (kind != o.kind) return kind < o.kind;
    if (kind == 0) return val < o.val;
    return std::lexicographical_compare(items.begin(), items.end(), o.items.begin(), o.items.end());
  }
  std::string Str() const {
    if (kind == 0) return std::to_string(val);
    std::string r = kind == 1 ? "(" : "{";
    for (size_t i = 0; i < items.size(); ++i) { if (i) r += ","; r += items[i].Str(); }
    return r + (kind == 1 ? ")" : "}");
  }
};
MV MSet(std::vector<MV> v) { std::sort(v.begin(), v.end()); v.erase(std::unique(v.begin(), v.end()), v.end()); MV m; m.kind = 2; m.items = std::move(v); return m; }
MV MTuple(std::vector<MV> v) { if (v.size() == 1) return v[0]; MV m; m.kind = 1; m.items = std::move(v); return m; }
MV MVal(int x) { MV m; m.val = x; return m; }
bool MContains(const MV& s, const MV& e) { return std::binary_search(s.items.begin(), s.items.end(), e); }

// ---- types as strings: "E", "T(a;b;c)", "Ba"
std::vector<std::string> TupleParts(const std::string& t) {
  std::vector<std::string> r; int depth = 0; std::string cur;
  for (size_t i = 2; i + 1 < t.size(); ++i) {
    const char ch = t[i];
    if (ch == '(') ++depth; if (ch == ')') --depth;
    if (ch == ';' && depth == 0) { r.push_back(cur); cur.clear(); } else cur += ch;
  }
  r.push_back(cur); return r;
}
std::string TupleType(const std::vector<std::string>& parts) { if (parts.size() == 1) return parts[0]; std::string r = "T("; for (size_t i = 0; i < parts.size(); ++i) { if (i) r += ";"; r += parts[i]; } return r + ")"; }
bool IsSetT(const std::string& t) { return !t.empty() && t[0] == 'B'; }
bool IsTupleT(const std::string& t) { return !t.empty() && t[0] == 'T'; }
int Depth(const std::string& t) { int d = 0, m = 0; for (char c : t) { if (c == 'B' || c == '(') { ++d; m = std::max(m, d); } if (c == ')') --d; } int b = 0; for (char c : t) if (c == 'B') ++b; return std::max(m, b); }

// lazy: 0 surely enumerated at top level, 1 surely lazy (power set / product object), 2 unknown (element extracted from a set)
struct Handle { StructuredData v; MV m; std::string ty; int lazy{ 0 }; };
struct Client {
  bool open{ false };
  StructuredData keep; std::unique_ptr<SDIterator> it, end;
  MV m; std::vector<MV> order; size_t pos{ 0 };
  const StructuredData* held{ nullptr }; size_t heldPos{ 0 };   // reference obtained from operator* and kept (forward-iterator contract)
};

class ValueSim final : public Engine {
  std::vector<Handle> H;
  std::vector<Client> clients;
  size_t maxHandles{ 16 };

  // library value -> model value by full traversal (iterates every nested set: each element once is checked by the caller)
  static MV FromLib(const StructuredData& d, int depth = 0) {
    if (d.IsElement()) return MVal(d.E().Value());
    if (d.IsTuple()) { MV m; m.kind = 1; for (rslang::Index i = 1; i <= d.T().Arity(); ++i) m.items.push_back(FromLib(d.T().Component(i), depth + 1)); return m; }
    MV m; m.kind = 2;
    for (const auto& e : d.B()) m.items.push_back(FromLib(e, depth + 1));
    return m;   // NOT canonicalised: caller checks duplicates
  }
  static std::optional<std::string> Equals(const StructuredData& d, const MV& m) {
    if (m.kind == 0) { if (!d.IsElement()) return "not an element"; if (d.E().Value() != m.val) return "element value " + std::to_string(d.E().Value()) + " != " + std::to_string(m.val); return std::nullopt; }
    if (m.kind == 1) {
      if (!d.IsTuple()) return "not a tuple"; if (d.T().Arity() != static_cast<int>(m.items.size())) return "arity " + std::to_string(d.T().Arity());
      for (size_t i = 0; i < m.items.size(); ++i) if (auto r = Equals(d.T().Component(static_cast<rslang::Index>(i + 1)), m.items[i])) return "component " + std::to_string(i + 1) + ": " + *r;
      return std::nullopt;
    }
    if (!d.IsCollection()) return "not a set";
    if (d.B().Cardinality() != static_cast<int>(m.items.size())) return "Cardinality()=" + std::to_string(d.B().Cardinality()) + " model " + std::to_string(m.items.size());
    if (d.B().IsEmpty() != m.items.empty()) return "IsEmpty mismatch";
    MV got = FromLib(d);
    if (got.items.size() != m.items.size()) return "iteration yields " + std::to_string(got.items.size()) + " elements, model has " + std::to_string(m.items.size());
    // canonicalise nested (elements may themselves be non-canonical vectors in library order)
    std::function<MV(const MV&)> canon = [&](const MV& x) { if (x.kind == 0) return x; MV r; r.kind = x.kind; for (auto& i : x.items) r.items.push_back(canon(i)); if (x.kind == 2) { std::sort(r.items.begin(), r.items.end()); } return r; };
    MV c = canon(got);
    if (std::adjacent_find(c.items.begin(), c.items.end()) != c.items.end()) return "iteration yields a duplicate element: " + c.Str();
    if (!(c == m)) return "iteration yields " + c.Str() + " model " + m.Str();
    return std::nullopt;
  }

  std::vector<size_t> OfType(const std::string& ty) const { std::vector<size_t> r; for (size_t i = 0; i < H.size(); ++i) if (H[i].ty == ty) r.push_back(i); return r; }
  std::vector<size_t> Sets() const { std::vector<size_t> r; for (size_t i = 0; i < H.size(); ++i) if (IsSetT(H[i].ty)) r.push_back(i); return r; }

public:
  const char* Name() const override { return "valuesim"; }
  std::vector<std::string> Properties() const override { return { "C15" }; }
  uint64_t DefaultRuns(const std::string&, bool thorough) const override { return thorough ? 250000 : 12000; }
  Cfg GenCfg(Rng& r, const std::string&, bool) override {
    Cfg c;
    c["steps"] = r.Range(8, 60);
    static const std::vector<int> limits{ 1, 2, 3, 5, 100, 0 };
    c["cache_limit"] = r.Pick(limits);
    c["handles"] = r.Range(6, 24);
    c["elems"] = r.Range(2, 6);
    c["clients"] = r.Range(1, 4);
    c["w_build"] = r.Range(2, 8); c["w_lazy"] = r.Range(1, 6); c["w_alg"] = r.Range(1, 6); c["w_mut"] = r.Range(0, 5);
    c["w_iter"] = r.Range(0, 8); c["w_copy"] = r.Range(0, 3); c["w_hold"] = r.Range(0, 3);
    c["observe"] = r.Pct(65) ? 1 : r.Range(2, 6);
    return c;
  }
  void Begin(Ctx& c) override {
    H.clear(); clients.clear(); clients.resize(static_cast<size_t>(c.C("clients", 2)));
    maxHandles = static_cast<size_t>(c.C("handles", 16));
    c.Count("knob.cache_limit=" + std::to_string(c.C("cache_limit")));
  }

  bool GenOp(Ctx& c, Op& op) override {
    auto& r = c.gen;
    const int elems = static_cast<int>(c.C("elems", 4));
    auto anyH = [&] { return static_cast<int64_t>(r.Below(std::max<size_t>(1, H.size()))); };
    if (H.size() < 2) { op.kind = "Val"; op.n = { r.Range(0, elems) }; return true; }
    if (H.size() >= maxHandles || TotalWeight() > 9000) { op.kind = "DropHandle"; op.n = { anyH() }; if (H.size() < maxHandles) { size_t big = 0; for (size_t i = 0; i < H.size(); ++i) if (Weight(H[i].m) > Weight(H[big].m)) big = i; if (r.Pct(70)) op.n = { static_cast<int64_t>(big) }; } return true; }
    for (int attempt = 0; attempt < 20; ++attempt) {
      const std::vector<int> w{ (int)c.C("w_build"), (int)c.C("w_lazy"), (int)c.C("w_alg"), (int)c.C("w_mut"), (int)c.C("w_iter"), (int)c.C("w_copy"), (int)c.C("w_hold") };
      const size_t fam = r.Weighted(w);
      const auto sets = Sets();
      op.n.clear(); op.s.clear();
      if (fam == 0) {
        switch (r.Below(5)) {
        case 0: if (r.Pct(8)) { static const std::vector<int> sz{ 8, 10, 12, 16, 17, 18, 20 }; op.kind = "RangeSet"; op.n = { r.Pick(sz) }; return true; }   // a wider enumerated set: factor for lazy products of a few hundred tuples
          op.kind = "Val"; op.n = { r.Range(0, elems) }; if (r.Pct(5)) { static const std::vector<int64_t> far{ -2147483647, -2000000000, -1073741824, 1073741824, 2000000000, 2147483647 }; op.n = { r.Pick(far) }; }   // integers further apart than INT32_MAX
          return true;
        case 1: { op.kind = "Tuple"; const int k = r.Range(2, 3); for (int i = 0; i < k; ++i) op.n.push_back(anyH()); std::vector<std::string> parts; for (auto x : op.n) parts.push_back(H[static_cast<size_t>(x)].ty); if (Depth(TupleType(parts)) > 4) continue; return true; }
        case 2: { op.kind = "Set"; const auto first = anyH(); const auto same = OfType(H[static_cast<size_t>(first)].ty); if (Depth(H[static_cast<size_t>(first)].ty) > 3) continue; op.n = { first }; const int k = r.Range(0, 4); for (int i = 0; i < k; ++i) op.n.push_back(static_cast<int64_t>(r.Pick(same))); return true; }
        case 3: { op.kind = "EmptySet"; const auto h = anyH(); if (Depth(H[static_cast<size_t>(h)].ty) > 3) continue; op.n = { h }; return true; }
        default: { op.kind = "Singleton"; const auto h = anyH(); if (Depth(H[static_cast<size_t>(h)].ty) > 3) continue; op.n = { h }; return true; }
        }
      } else if (fam == 1) {
        if (r.Pct(3)) { op.kind = "BigProduct"; op.n = { r.Range(2, 5), r.Range(10, 30) }; return true; }   // products of power sets: cardinalities beyond 2^32 / 2^64
        if (r.Pct(6)) { static const std::vector<int> ns{ 9, 12, 16, 20, 27, 28, 29, 30, 30 }; op.kind = "BigBoolean"; op.n = { r.Pick(ns), static_cast<int64_t>(r.Below(1u << 30)) }; return true; }   // power sets too big to enumerate: O(1) facts only
        if (sets.empty()) continue;
        if (r.Pct(50)) {
          const auto h = r.Pick(sets); if (H[h].m.items.size() > 7 || Depth(H[h].ty) > 3) continue;
          op.kind = "Boolean"; op.n = { static_cast<int64_t>(h) }; return true;
        } else {
          if (r.Pct(15)) {   // a wide product on purpose: more positions than one byte can index (257..800 tuples), preferably just above 256 where a cache window of 100 straddles the wrap
            std::vector<size_t> cand; for (auto h : sets) if (H[h].m.items.size() >= 2 && Depth(H[h].ty) <= 2) cand.push_back(h);
            std::sort(cand.begin(), cand.end(), [&](size_t a, size_t b) { return H[a].m.items.size() > H[b].m.items.size(); }); if (cand.size() > 8) cand.resize(8);
            std::vector<std::vector<int64_t>> near, wide;
            for (size_t a = 0; a < cand.size(); ++a) for (size_t b = 0; b < cand.size(); ++b) {
              const size_t p2 = H[cand[a]].m.items.size() * H[cand[b]].m.items.size();
              if (p2 > 256 && p2 <= 800) (p2 <= 355 ? near : wide).push_back({ static_cast<int64_t>(cand[a]), static_cast<int64_t>(cand[b]) });
              for (size_t d = 0; d < cand.size() && p2 <= 400; ++d) { const size_t p3 = p2 * H[cand[d]].m.items.size(); if (p3 > 256 && p3 <= 800) (p3 <= 355 ? near : wide).push_back({ static_cast<int64_t>(cand[a]), static_cast<int64_t>(cand[b]), static_cast<int64_t>(cand[d]) }); }
            }
            if (!near.empty() && r.Pct(75)) { op.kind = "Decartian"; op.n = r.Pick(near); return true; }
            if (!wide.empty()) { op.kind = "Decartian"; op.n = r.Pick(wide); return true; }
          }
          const int k = r.Range(2, 3); size_t prod = 1; int depth = 0;
          for (int i = 0; i < k; ++i) { const auto h = r.Pick(sets); op.n.push_back(static_cast<int64_t>(h)); prod *= H[h].m.items.size(); depth = std::max(depth, Depth(H[h].ty)); }
          if (prod > (r.Pct(25) ? 800u : 300u) || depth > 3) continue;   // sometimes beyond 256 elements: more than the lazy-set cache can index with one byte
          op.kind = "Decartian"; return true;
        }
      } else if (fam == 2) {
        if (sets.empty()) continue;
        const auto h = r.Pick(sets);
        switch (r.Below(7)) {
        case 0: case 1: case 2: case 3: {
          static const char* names[]{ "Union", "Intersect", "Diff", "SymDiff" };
          op.kind = names[r.Below(4)]; const auto same = OfType(H[h].ty); op.n = { static_cast<int64_t>(h), static_cast<int64_t>(r.Pick(same)) }; return true;
        }
        case 4: {
          const std::string et = H[h].ty.substr(1); if (!IsTupleT(et)) continue;
          const int arity = static_cast<int>(TupleParts(et).size());
          op.kind = "Projection"; op.n = { static_cast<int64_t>(h) }; const int k = r.Range(1, 3); for (int i = 0; i < k; ++i) op.n.push_back(r.Range(1, arity)); return true;
        }
        case 5: { const std::string et = H[h].ty.substr(1); if (!IsSetT(et)) continue; size_t total = 0; for (auto& e : H[h].m.items) total += e.items.size(); if (total > 400) continue; op.kind = "Reduce"; op.n = { static_cast<int64_t>(h) }; return true; }
        default: { if (H[h].m.items.size() != 1) continue; op.kind = "Debool"; op.n = { static_cast<int64_t>(h) }; return true; }
        }
      } else if (fam == 3) {
        if (sets.empty()) continue;
        const auto h = r.Pick(sets); const auto el = OfType(H[h].ty.substr(1)); if (el.empty()) continue;
        op.kind = r.Pct(50) ? "AddElementCopy" : "AddElementInPlace"; op.n = { static_cast<int64_t>(h), static_cast<int64_t>(r.Pick(el)) }; return true;
      } else if (fam == 4) {
        const auto cl = static_cast<int64_t>(c.sched.Below(clients.size()));   // which client steps next is a scheduling decision
        auto& C = clients[static_cast<size_t>(cl)];
        if (!C.open) { if (sets.empty()) continue; op.kind = "IterOpen"; op.client = static_cast<int>(cl); op.n = { cl, static_cast<int64_t>(r.Pick(sets)) }; return true; }
        static const std::vector<int> ww{ 6, 5, 1 };
        static const char* names[]{ "IterNext", "IterDeref", "IterClose" };
        op.kind = names[r.Weighted(ww)]; op.client = static_cast<int>(cl); op.n = { cl }; return true;
      } else if (fam == 5) {
        op.kind = r.Pct(70) ? "CopyHandle" : "DropHandle"; op.n = { anyH() }; return true;
      } else {
        const auto cl = static_cast<int64_t>(c.sched.Below(clients.size()));
        auto& C = clients[static_cast<size_t>(cl)];
        if (!C.open) continue;
        op.kind = C.held ? (r.Pct(70) ? "RefRead" : "RefDrop") : "RefHold"; op.client = static_cast<int>(cl); op.n = { cl }; return true;
      }
    }
    op.kind = "Val"; op.n = { r.Range(0, elems) }; return true;
  }

  // bookkeeping of the heap's size (model nodes): every live handle is re-enumerated after every step, so the heap is kept affordable
  static size_t Weight(const MV& m) { size_t w = 1; for (auto& i : m.items) w += Weight(i); return w; }
  size_t TotalWeight() const { size_t w = 0; for (auto& h : H) w += Weight(h.m); return w; }
  void Push(Ctx& c, Handle h, const std::string& kind) {
    if (Weight(h.m) > 4000 || TotalWeight() + Weight(h.m) > 12000) { c.Probe("result_too_big_for_the_heap_skipped"); return; }
    if (auto bad = Equals(h.v, h.m)) { c.Fail("C15", "result_value", kind, kind + " result differs from model: " + *bad + " (type " + h.ty + ", model " + h.m.Str() + ")"); return; }
    H.push_back(std::move(h));
  }

  void CheckAll(Ctx& c, const std::string& trig) {
    c.Oracle("all_handles_equal_model");
    const auto limit = static_cast<size_t>(c.C("cache_limit", 0) ? c.C("cache_limit", 0) : 100);
    for (size_t i = 0; i < H.size() && !c.Failed(); ++i) {
      if (H[i].lazy == 1 && H[i].m.items.size() > limit) c.Fault("cache_evicted_during_full_iteration");
      if (auto bad = Equals(H[i].v, H[i].m)) c.Fail("C15", "handle_changed", trig, "handle #" + std::to_string(i) + " (type " + H[i].ty + ") no longer equals its model " + H[i].m.Str() + ": " + *bad);
    }
  }
  void CheckLaws(Ctx& c) {
    // order / equality laws on same-typed pairs and triples; membership of model elements and near misses
    c.Oracle("order_and_membership_laws");
    const size_t n = H.size(); if (n == 0) return;
    for (size_t k = 0; k < 6 && !c.Failed(); ++k) {
      const size_t a = Mix(c.runSeed + k, static_cast<uint64_t>(c.step) * 3 + 1) % n;
      const auto same = OfType(H[a].ty);
      const size_t b = same[Mix(c.runSeed + k, static_cast<uint64_t>(c.step) * 3 + 2) % same.size()];
      const size_t d = same[Mix(c.runSeed + k, static_cast<uint64_t>(c.step) * 3 + 3) % same.size()];
      const auto& A = H[a]; const auto& B = H[b]; const auto& D = H[d];
      const std::string trig = std::string("laws/") + (A.lazy || B.lazy || D.lazy ? "lazy" : "enumerated");
      const bool eq = A.v == B.v, lt = A.v < B.v, gt = B.v < A.v;
      const bool meq = A.m == B.m;
      if (eq != meq) { c.Fail("C15", "equality", trig, "operator== gives " + std::to_string(eq) + " for " + A.m.Str() + " vs " + B.m.Str() + (A.lazy != B.lazy ? " (different representations)" : "")); return; }
      if ((eq ? 1 : 0) + (lt ? 1 : 0) + (gt ? 1 : 0) != 1) { c.Fail("C15", "trichotomy", trig, "==,<,> = " + std::to_string(eq) + std::to_string(lt) + std::to_string(gt) + " for " + A.m.Str() + " vs " + B.m.Str()); return; }
      if ((A.v != B.v) == eq) { c.Fail("C15", "equality", trig, "operator!= inconsistent"); return; }
      if (A.v < B.v && B.v < D.v && !(A.v < D.v)) { c.Fail("C15", "transitivity", trig, A.m.Str() + " < " + B.m.Str() + " < " + D.m.Str() + " but not a<c"); return; }
      if (meq && A.v.ToString() != B.v.ToString()) { c.Fail("C15", "tostring_equal_values", trig, "equal values print differently: " + A.v.ToString() + " vs " + B.v.ToString()); return; }
      if (meq && ((A.v < D.v) != (B.v < D.v) || (D.v < A.v) != (D.v < B.v))) { c.Fail("C15", "order_respects_equality", trig, "equal values order differently against " + D.m.Str() + (A.lazy != B.lazy ? " (different representations)" : "")); return; }
      if (IsSetT(A.ty)) {
        const bool sub = A.v.B().IsSubsetOrEq(B.v.B());
        const bool msub = std::includes(B.m.items.begin(), B.m.items.end(), A.m.items.begin(), A.m.items.end());
        if (sub != msub) { c.Fail("C15", "subset", trig, "IsSubsetOrEq " + A.m.Str() + " in " + B.m.Str() + " = " + std::to_string(sub)); return; }
        for (size_t e : OfType(A.ty.substr(1))) {
          const bool got = A.v.B().Contains(H[e].v), want = MContains(A.m, H[e].m);
          if (got != want) { c.Fail("C15", "contains", trig, "Contains(" + H[e].m.Str() + ") on " + A.m.Str() + (A.lazy ? " (lazy)" : "") + " = " + std::to_string(got)); return; }
          if (!want) c.Probe("contains_near_miss");
        }
      }
    }
  }

  void Exec(Ctx& c, const Op& op) override {
    const auto hx = [&](size_t i) -> size_t { return H.empty() ? 0 : static_cast<size_t>(op.N(i)) % H.size(); };
    const std::string& k = op.kind;
    if (H.empty() && k != "Val") return;
    c.nontrivial = true;
    if (k == "Val") { Handle h; h.v = Factory::Val(static_cast<int>(op.N(0))); h.m = MVal(static_cast<int>(op.N(0))); h.ty = "E"; Push(c, h, k); }
    else if (k == "Tuple") {
      std::vector<StructuredData> comps; std::vector<MV> ms; std::vector<std::string> tys;
      for (size_t i = 0; i < op.n.size(); ++i) { comps.push_back(H[hx(i)].v); ms.push_back(H[hx(i)].m); tys.push_back(H[hx(i)].ty); }
      Handle h; h.v = Factory::Tuple(comps); h.m = MTuple(ms); h.ty = TupleType(tys); Push(c, h, k);
    }
    else if (k == "Set") {
      const std::string ty = H[hx(0)].ty; std::vector<StructuredData> el; std::vector<MV> ms;
      for (size_t i = 0; i < op.n.size(); ++i) if (H[hx(i)].ty == ty) { el.push_back(H[hx(i)].v); ms.push_back(H[hx(i)].m); }
      if (el.size() > 1 && MSet(ms).items.size() < ms.size()) c.Probe("set_with_duplicates");
      Handle h; h.v = Factory::Set(el); h.m = MSet(ms); h.ty = "B" + ty; Push(c, h, k);
    }
    else if (k == "RangeSet") { const int n = static_cast<int>(std::clamp<int64_t>(op.N(0), 0, 24)); std::vector<int32_t> ids; std::vector<MV> ms; for (int i = 0; i < n; ++i) { ids.push_back(i); ms.push_back(MVal(i)); } Handle h; h.v = Factory::SetV(ids); h.m = MSet(ms); h.ty = "BE"; Push(c, h, k); }
    else if (k == "EmptySet") { Handle h; h.v = Factory::EmptySet(); h.m = MSet({}); h.ty = "B" + H[hx(0)].ty; Push(c, h, k); }
    else if (k == "Singleton") { Handle h; h.v = Factory::Singleton(H[hx(0)].v); h.m = MSet({ H[hx(0)].m }); h.ty = "B" + H[hx(0)].ty; Push(c, h, k); }
    else if (k == "Boolean") {
      const auto& b = H[hx(0)]; if (!IsSetT(b.ty) || b.m.items.size() > 8) return;
      std::vector<MV> subs; const size_t n = b.m.items.size();
      for (size_t mask = 0; mask < (size_t{ 1 } << n); ++mask) { std::vector<MV> s; for (size_t i = 0; i < n; ++i) if (mask & (size_t{ 1 } << i)) s.push_back(b.m.items[i]); subs.push_back(MSet(s)); }
      if (b.lazy) c.Probe("boolean_of_lazy");
      Handle h; h.v = Factory::Boolean(b.v); h.m = MSet(subs); h.ty = "B" + b.ty; h.lazy = 1; Push(c, h, k);
    }
    else if (k == "BigBoolean") {
      // a power set that cannot be enumerated (2^9 .. 2^30 elements, up to the documented limit BOOL_INFINITY = 30): cardinality, membership and a prefix of the iteration
      const int n = static_cast<int>(std::clamp<int64_t>(op.N(0), 1, 30)); Rng rr(static_cast<uint64_t>(op.N(1)));
      std::vector<int32_t> base; for (int i = 0; i < n; ++i) base.push_back(i);
      const auto b = Factory::SetV(base); const auto p = Factory::Boolean(b);
      c.Oracle("big_power_set"); c.Probe("big_power_set");
      if (p.B().Cardinality() != (int64_t{ 1 } << n)) { c.Fail("C15", "cardinality", k, "power set of " + std::to_string(n) + " elements reports cardinality " + std::to_string(p.B().Cardinality())); return; }
      std::vector<int32_t> sub; for (int i = 0; i < n; ++i) if (rr.Pct(40)) sub.push_back(i);
      if (!p.B().Contains(Factory::SetV(sub))) { c.Fail("C15", "membership", k + "/subset", "a subset of the base is not a member of its power set"); return; }
      sub.push_back(n + 3);
      if (p.B().Contains(Factory::SetV(sub))) { c.Fail("C15", "membership", k + "/foreign", "a set with a foreign element is a member of the power set"); return; }
      std::vector<StructuredData> seen; int cnt = 0;
      for (const auto& e : p.B()) { if (++cnt > 6) break; if (!e.IsCollection() || !e.B().IsSubsetOrEq(b.B())) { c.Fail("C15", "iteration", k, "iteration of a power set yields something that is not a subset of the base"); return; } for (auto& s0 : seen) if (s0 == e) { c.Fail("C15", "iteration", k + "/repeat", "iteration of a power set yields an element twice"); return; } seen.push_back(e); }
    }
    else if (k == "BigProduct") {
      // a product of k power sets of n-element bases: far too big to enumerate (and, for k*n >= 64, beyond 64-bit counting). Whatever
      // cardinality is reported for it, it is not empty, not equal to the empty set, and contains the tuple of empty sets
      const int kf = static_cast<int>(std::clamp<int64_t>(op.N(0), 2, 5)), n = static_cast<int>(std::clamp<int64_t>(op.N(1), 1, 30));
      std::vector<int32_t> base; for (int i = 0; i < n; ++i) base.push_back(i);
      std::vector<StructuredData> f, empties; for (int i = 0; i < kf; ++i) { f.push_back(Factory::Boolean(Factory::SetV(base))); empties.push_back(Factory::EmptySet()); }
      const auto p = Factory::Decartian(f);
      c.Oracle("big_product"); c.Probe("big_product");
      if (p.B().IsEmpty() || p.B().Cardinality() <= 0) { c.Fail("C15", "cardinality", k, "a product of " + std::to_string(kf) + " power sets of " + std::to_string(n) + "-element sets reports IsEmpty=" + std::to_string(p.B().IsEmpty()) + " Cardinality=" + std::to_string(p.B().Cardinality())); return; }
      if (!p.B().Contains(Factory::Tuple(empties))) { c.Fail("C15", "membership", k, "the tuple of empty sets is not a member of a product of power sets"); return; }
      if (p == Factory::EmptySet()) { c.Fail("C15", "equality", k, "a non-empty product equals the empty set"); return; }
      int cnt = 0; for (const auto& e : p.B()) { if (++cnt > 3) break; if (!e.IsTuple() || e.T().Arity() != kf) { c.Fail("C15", "iteration", k, "iteration of a product yields something that is not a tuple of the right arity"); return; } }
      if (cnt == 0) { c.Fail("C15", "iteration", k, "iteration of a non-empty product yields nothing"); return; }
    }
    else if (k == "Decartian") {
      std::vector<StructuredData> f; std::vector<const MV*> ms; std::vector<std::string> tys; size_t prod = 1; int anyLazy = 0;
      for (size_t i = 0; i < op.n.size(); ++i) { const auto& x = H[hx(i)]; if (!IsSetT(x.ty)) return; f.push_back(x.v); ms.push_back(&x.m); tys.push_back(x.ty.substr(1)); prod *= x.m.items.size(); anyLazy |= x.lazy; }
      if (f.size() < 2 || prod > 2000) return;
      std::vector<MV> tuples; std::vector<size_t> idx(ms.size(), 0);
      if (prod > 0) for (;;) {
        std::vector<MV> comps; for (size_t i = 0; i < ms.size(); ++i) comps.push_back(ms[i]->items[idx[i]]);
        tuples.push_back(MTuple(comps));
        size_t p = ms.size(); bool done = true;
        while (p-- > 0) { if (++idx[p] < ms[p]->items.size()) { done = false; break; } idx[p] = 0; }
        if (done) break;
      }
      if (prod == 0) c.Probe("decartian_with_empty_factor"); if (anyLazy) c.Probe("decartian_of_lazy"); if (prod > 256) c.Probe("lazy_set_over_256_elements");
      Handle h; h.v = Factory::Decartian(f); h.m = MSet(tuples); h.ty = "B" + TupleType(tys); h.lazy = prod > 0 ? 1 : 0; Push(c, h, k);
    }
    else if (k == "Union" || k == "Intersect" || k == "Diff" || k == "SymDiff") {
      const auto& a = H[hx(0)]; const auto& b = H[hx(1)]; if (!IsSetT(a.ty) || a.ty != b.ty) return;
      std::vector<MV> r;
      for (auto& e : a.m.items) { const bool inb = MContains(b.m, e); if (k == "Union" || (k == "Intersect" && inb) || ((k == "Diff" || k == "SymDiff") && !inb)) r.push_back(e); }
      for (auto& e : b.m.items) { const bool ina = MContains(a.m, e); if (k == "Union" || (k == "SymDiff" && !ina)) r.push_back(e); }
      if (a.lazy || b.lazy) c.Probe("algebra_on_lazy");
      Handle h; h.ty = a.ty; h.m = MSet(r);
      h.v = k == "Union" ? a.v.B().Union(b.v.B()) : k == "Intersect" ? a.v.B().Intersect(b.v.B()) : k == "Diff" ? a.v.B().Diff(b.v.B()) : a.v.B().SymDiff(b.v.B());
      Push(c, h, k);
    }
    else if (k == "Projection") {
      const auto& a = H[hx(0)]; if (!IsSetT(a.ty) || !IsTupleT(a.ty.substr(1))) return;
      const auto parts = TupleParts(a.ty.substr(1)); std::vector<rslang::Index> idx; std::vector<std::string> tys;
      for (size_t i = 1; i < op.n.size(); ++i) { const auto ix = static_cast<size_t>(op.N(i) - 1) % parts.size(); idx.push_back(static_cast<rslang::Index>(ix + 1)); tys.push_back(parts[ix]); }
      if (idx.empty()) return;
      std::vector<MV> r; for (auto& e : a.m.items) { std::vector<MV> comps; for (auto ix : idx) comps.push_back(e.items[static_cast<size_t>(ix - 1)]); r.push_back(MTuple(comps)); }
      Handle h; h.v = a.v.B().Projection(idx); h.m = MSet(r); h.ty = "B" + TupleType(tys); Push(c, h, k);
    }
    else if (k == "Reduce") {
      const auto& a = H[hx(0)]; if (!IsSetT(a.ty) || !IsSetT(a.ty.substr(1))) return;
      std::vector<MV> r; for (auto& e : a.m.items) for (auto& x : e.items) r.push_back(x);
      Handle h; h.v = a.v.B().Reduce(); h.m = MSet(r); h.ty = a.ty.substr(1); Push(c, h, k);
    }
    else if (k == "Debool") {
      const auto& a = H[hx(0)]; if (!IsSetT(a.ty) || a.m.items.size() != 1) return;
      Handle h; h.v = a.v.B().Debool(); h.m = a.m.items[0]; h.ty = a.ty.substr(1); h.lazy = 2; Push(c, h, k);
    }
    else if (k == "AddElementCopy" || k == "AddElementInPlace") {
      const size_t hi = hx(0); const auto& e = H[hx(1)]; if (!IsSetT(H[hi].ty) || H[hi].ty.substr(1) != e.ty) return;
      // AddElement is not among the operations the statement defines set-theoretically; lazy representations refuse it.
      // Demanded: the flag tells whether the set changed; the set is old or old+{e}; a surely-enumerated set does add; the original is untouched.
      const bool present = MContains(H[hi].m, e.m);
      MV added = H[hi].m; added.items.push_back(e.m); added = MSet(added.items);
      const MV old = H[hi].m; const int lz = H[hi].lazy;
      if (lz != 0) c.Probe("add_element_on_lazy");
      auto settle = [&](Handle& h, bool flag) -> bool {
        const bool mustAdd = lz == 0 && !present, mustRefuse = present || lz == 1;
        if (flag && mustRefuse) { c.Fail("C15", "add_element_result", k, "AddElement returned true adding " + e.m.Str() + " to " + old.Str() + (present ? " (already present)" : " (lazy)")); return false; }
        if (!flag && mustAdd) { c.Fail("C15", "add_element_result", k, "AddElement returned false adding " + e.m.Str() + " to enumerated " + old.Str()); return false; }
        h.m = flag ? added : old;
        if (auto bad = Equals(h.v, h.m)) { c.Fail("C15", "result_value", k, "AddElement(" + e.m.Str() + ") returned " + (flag ? "true" : "false") + " but the set is not " + h.m.Str() + ": " + *bad); return false; }
        return true;
      };
      if (k == "AddElementCopy") {
        Handle h = H[hi]; const bool flag = h.v.ModifyB().AddElement(e.v); c.Probe("modify_copy");
        if (settle(h, flag)) H.push_back(std::move(h));
      } else {
        const bool flag = H[hi].v.ModifyB().AddElement(e.v); c.Probe("modify_in_place");
        settle(H[hi], flag);
      }
      if (c.Failed()) return;
    }
    else if (k == "CopyHandle") { Handle h = H[hx(0)]; H.push_back(h); }
    else if (k == "DropHandle") { if (H.size() > 1) H.erase(H.begin() + static_cast<long>(hx(0))); }
    else if (k == "IterOpen") {
      auto& C = clients[static_cast<size_t>(op.N(0)) % clients.size()]; const auto& a = H[hx(1)]; if (!IsSetT(a.ty)) return;
      C = Client{}; C.open = true; C.keep = a.v; C.m = a.m;
      for (const auto& e : C.keep.B()) { MV x = FromLib(e); std::function<void(MV&)> canon = [&](MV& y) { for (auto& i : y.items) canon(i); if (y.kind == 2) std::sort(y.items.begin(), y.items.end()); }; canon(x); C.order.push_back(x); }
      C.it = std::make_unique<SDIterator>(C.keep.B().begin()); C.end = std::make_unique<SDIterator>(C.keep.B().end());
      if (a.lazy) c.Probe("iterator_on_lazy");
      for (auto& o : clients) if (&o != &C && o.open && o.m == C.m) c.Probe("two_iterators_same_value");
    }
    else if (k == "IterNext" || k == "IterDeref" || k == "IterClose" || k == "RefHold" || k == "RefRead" || k == "RefDrop") {
      auto& C = clients[static_cast<size_t>(op.N(0)) % clients.size()]; if (!C.open) return;
      const bool atEnd = *C.it == *C.end;
      if (atEnd != (C.pos >= C.order.size())) { c.Fail("C15", "iterator_end", k, "iterator at position " + std::to_string(C.pos) + " of " + std::to_string(C.order.size()) + (atEnd ? " is at end" : " is not at end")); return; }
      if (k == "IterClose") { C = Client{}; }
      else if (k == "IterNext") { if (!atEnd) { ++*C.it; ++C.pos; C.held = nullptr; } }
      else if (k == "IterDeref") {
        if (atEnd) return;
        const StructuredData got = **C.it;
        if (auto bad = Equals(got, C.order[C.pos])) { c.Fail("C15", "iterator_element", k, "iterator at position " + std::to_string(C.pos) + " yields a value different from the first pass (" + C.order[C.pos].Str() + "): " + *bad); return; }
        c.Oracle("iterator_element");
      }
      else if (k == "RefHold") { if (atEnd) return; C.held = &**C.it; C.heldPos = C.pos; c.Probe("reference_held"); }
      else if (k == "RefRead") {
        if (!C.held) return;
        // forward-iterator contract: the reference obtained from operator* stays valid while the sequence exists and the iterator is not advanced
        if (auto bad = Equals(*C.held, C.order[C.heldPos])) { c.Fail("C15", "held_reference", k, "reference from operator* at position " + std::to_string(C.heldPos) + " changed: " + *bad); return; }
        c.Oracle("held_reference");
      }
      else if (k == "RefDrop") { C.held = nullptr; }
    }
    if (c.Failed()) return;
    const int observe = static_cast<int>(c.C("observe", 1));
    if (observe <= 1 || c.step % observe == 0) { CheckAll(c, k); if (!c.Failed()) CheckLaws(c); }
    uint64_t h = 0; for (auto& x : H) h = Mix(h, HashStr(x.m.Str() + x.ty + std::to_string(x.lazy)));
    for (auto& cl : clients) h = Mix(h, cl.open ? cl.pos + 1 : 0);
    c.State(h);
  }
  void End(Ctx& c) override { CheckAll(c, "end"); if (!c.Failed()) CheckLaws(c); }
  void Destroy() override { clients.clear(); H.clear(); }
  std::string CrashProperty(const std::string&, const Op&) const override { return "C15"; }
  std::vector<std::string> RealComponents() const override { return { "ccl::object::StructuredData / Factory / SDSet / SDEnumSet / SDPowerSet / SDDecartian / SDTuple (rslang/src/StructuredData.cpp, SDImplementation.cpp)", "ccl::meta::PolyFCIterator" }; }
  std::vector<std::string> StubComponents() const override { return { "cache limit of lazy sets set per run through hook H2 (1,2,3,5,100 or shipped default)" }; }
  std::string Rule(const std::string&) const override {
    return "one evaluation = one seeded run: a history (8-60 ops) over a heap of <= 24 typed, aliased value handles (Val/Tuple/Set/EmptySet/Singleton/Boolean/Decartian/Union/Intersect/Diff/SymDiff/Projection/Reduce/Debool/AddElement on a copy or in place/CopyHandle/DropHandle) and 1-4 iterator clients advanced in scheduler-chosen interleaving (IterOpen/Next/Deref/Close, RefHold/RefRead), under a per-run cache limit; each result and, after each step, every live handle is compared with a reference value (full iteration, cardinality), plus equality/order laws, subset and membership on same-typed pairs/triples. distinct_nontrivial = distinct whole-run op-kind sequences among runs that executed >= 1 op.";
  }
  std::vector<std::string> Assumptions(const std::string&) const override {
    return { "only same-typed values are compared or put in one set", "Debool is called only on singletons and Boolean only on sets of <= 8 elements (documented preconditions)", "AddElement on a lazy (power-set/product) value is expected to refuse and change nothing, as the code documents" };
  }
};

} // namespace

int main(int argc, char** argv) { ValueSim e; return sim::Main(argc, argv, e); }
