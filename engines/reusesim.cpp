// reusesim — C18 (and the reuse facet of C04): long-lived Parser / Auditor / SchemaAuditor / Schema-internal auditor /
// Interpreter and the library's internal static generators, used by 2-4 simulated analyst clients whose calls are
// interleaved by the scheduler; after each call the same call is made on freshly constructed objects and compared.
#include "modelkit.hpp"
#include "pristine.hpp"

#include "ccl/rslang/Auditor.h"
#include "ccl/rslang/Interpreter.h"
#include "ccl/rslang/RSGenerator.h"
#include "ccl/rslang/Literals.h"
#include "ccl/api/RSFormJA.h"

using namespace sim;
using namespace mk;

namespace {

struct Obs {
  bool ok{ false };
  std::string errors, type, args, ast, genMath, genAscii, value, extra;
  int valueClass{ -1 }; int iterations{ -1 };
  std::string Diff(const Obs& f) const {
    if (ok != f.ok) return std::string("verdict ") + (ok ? "ok" : "failed") + " vs fresh " + (f.ok ? "ok" : "failed");
    if (errors != f.errors) return "errors [" + errors + "] vs fresh [" + f.errors + "]";
    if (type != f.type) return "type " + type + " vs fresh " + f.type;
    if (args != f.args) return "arguments " + args + " vs fresh " + f.args;
    if (valueClass != f.valueClass) return "value class " + std::to_string(valueClass) + " vs fresh " + std::to_string(f.valueClass);
    if (ast != f.ast) return "tree " + ast + " vs fresh " + f.ast;
    if (genMath != f.genMath) return "generated MATH text '" + genMath + "' vs fresh '" + f.genMath + "'";
    if (genAscii != f.genAscii) return "generated ASCII text '" + genAscii + "' vs fresh '" + f.genAscii + "'";
    if (value != f.value) return "value " + value + " vs fresh " + f.value;
    if (iterations != f.iterations) return "iteration count " + std::to_string(iterations) + " vs fresh " + std::to_string(f.iterations);
    if (extra != f.extra) return "extra '" + extra + "' vs fresh '" + f.extra + "'";
    return {};
  }
};
std::string ErrStr(const rslang::ErrorLogger& log) {
  std::string s;
  for (const auto& e : log.All()) { s += std::to_string(e.eid) + "@" + std::to_string(e.position) + "("; for (auto& p : e.params) s += p + ","; s += ") "; }
  return s;
}
std::string TypeOf(const rslang::ExpressionType& t) { if (const auto* ty = std::get_if<rslang::Typification>(&t)) return ty->ToString(); return "LOGIC"; }
std::string ArgsOf(const rslang::FunctionArguments& a) { std::string s; for (auto& x : a) s += x.name + ":" + x.type.ToString() + ";"; return s; }

// one call into the library's process-global generators; used identically by the worker (whatever history its statics have seen)
// and by the pristine reference process (statics as at process start)
std::string StaticCall(const std::string& kind, int flag, const std::string& arg) {
  if (kind == "Convert") return rslang::ConvertTo(arg, flag % 2 ? rslang::Syntax::ASCII : rslang::Syntax::MATH);
  if (kind == "AstString") { rslang::Parser p; if (!p.Parse(arg)) return "<unparsed>"; return rslang::AST2String::Apply(p.AST()) + " | " + rslang::Generator::FromTree(p.AST(), rslang::Syntax::MATH) + " | " + rslang::Generator::FromTree(p.AST(), rslang::Syntax::ASCII); }
  if (arg.empty() || arg[0] == '<') return arg;
  const auto ty = rslang::operator""_t(arg.c_str(), arg.size());
  if (kind == "StructureFor") { std::string s; for (auto& [e, t] : rslang::Generator::StructureFor("S7", ty)) s += e + ":" + t.ToString() + ";"; return s; }
  return ty.ToString();
}
std::string PristineHandler(const std::string& req) {
  const auto a = req.find('\x1f'), b = req.find('\x1f', a + 1); if (a == std::string::npos || b == std::string::npos) return "<bad request>";
  return StaticCall(req.substr(0, a), std::atoi(req.substr(a + 1, b - a - 1).c_str()), req.substr(b + 1));
}

class ReuseSim final : public Engine {
  pristine::Server reference;   // forked before this process ran any library code; lives as long as the worker
  std::unique_ptr<RSModel> model;
  std::unique_ptr<rslang::Parser> parser;
  std::unique_ptr<rslang::Auditor> auditor;
  std::unique_ptr<semantic::SchemaAuditor> schemaAuditor;
  std::unique_ptr<rslang::Interpreter> interp;
  SimTextProc* proc{ nullptr };
  std::string prevKind{ "none" };
  std::string prop{ "C18" };
  std::map<std::string, std::string> memo;    // static-generator calls: first answer in this run for (kind,input)

  void MakeShared() {
    parser = std::make_unique<rslang::Parser>();
    auditor = std::make_unique<rslang::Auditor>(model->RSLang(), model->RSLang().VCContext(), model->RSLang().ASTContext());
    schemaAuditor = model->RSLang().MakeAuditor();
    interp = std::make_unique<rslang::Interpreter>(model->RSLang(), model->RSLang().ASTContext(), model->Calculations().Context());
  }

  // ---- observations
  static Obs ObsParse(rslang::Parser& p, const std::string& text, rslang::Syntax hint) {
    Obs o; o.ok = p.Parse(text, hint); o.errors = ErrStr(p.Errors()); o.extra = std::to_string(static_cast<int>(p.syntax));
    if (o.ok) { o.ast = rslang::AST2String::Apply(p.AST()); o.genMath = rslang::Generator::FromTree(p.AST(), rslang::Syntax::MATH); o.genAscii = rslang::Generator::FromTree(p.AST(), rslang::Syntax::ASCII); }
    return o;
  }
  static Obs ObsCheck(rslang::Auditor& a, const std::string& text, rslang::Syntax hint) {
    Obs o; o.ok = a.CheckType(text, hint);
    if (o.ok) { o.type = TypeOf(a.GetType()); o.args = ArgsOf(a.GetDeclarationArgs()); const bool v = a.CheckValue(); o.valueClass = static_cast<int>(a.GetValueClass()); o.extra = v ? "value-ok" : "value-failed"; o.ast = rslang::AST2String::Apply(a.parser.AST()); }
    o.errors = ErrStr(a.Errors());
    return o;
  }
  static Obs ObsSchemaAuditor(semantic::SchemaAuditor& a, bool cst, const std::string& alias, const std::string& text, CstType type, rslang::Syntax hint) {
    Obs o; o.ok = cst ? a.CheckConstituenta(alias, text, type) : a.CheckExpression(text, hint);
    if (o.ok) { o.type = TypeOf(a.GetType()); o.args = ArgsOf(a.GetDeclarationArgs()); const bool v = a.CheckValue(); o.valueClass = static_cast<int>(a.GetValueClass()); o.extra = std::string(v ? "value-ok" : "value-failed") + (cst ? "/prefix" + std::to_string(a.prefixLen) : std::string{}); o.ast = rslang::AST2String::Apply(a.AST()); }
    o.errors = ErrStr(a.Errors());
    return o;
  }
  static Obs ObsEval(rslang::Interpreter& in, const std::string& text, rslang::Syntax hint) {
    Obs o; const auto r = in.Evaluate(text, hint); o.ok = r.has_value(); o.errors = ErrStr(in.Errors()); if (o.ok) o.iterations = in.Iterations();   /* demanded only when the call succeeds */
    if (r) { if (const auto* b = std::get_if<bool>(&*r)) o.value = *b ? "TRUE" : "FALSE"; else { const auto& v = std::get<StructuredData>(*r); o.value = v.IsCollection() && v.B().Cardinality() > 2000 ? "<set of " + std::to_string(v.B().Cardinality()) + ">" : v.ToString(); } }
    return o;
  }

  std::string GenInput(Ctx& c, bool wantLogic, bool wantFunc) {
    auto& r = c.gen; const auto env = EnvOf(*model);
    exprgen::Gen g(r, env, static_cast<int>(c.C("expr_depth", 2)));
    g.siblingReuse = r.Pct(static_cast<int>(c.C("p_reuse_locals", 10))); g.nearMiss = static_cast<int>(c.C("p_near_miss", 0)); g.scopeEscape = static_cast<int>(c.C("p_scope_escape", 0));
    std::string t = wantFunc ? g.FunctionDef(r.Pct(50)) : g.TopLevel(wantLogic);
    if (!wantFunc && !wantLogic && g.siblingReuse && r.Pct(50)) t = "(" + t + "," + g.TopLevel(false) + ")";
    if (r.Pct(static_cast<int>(c.C("p_reuse_locals", 10)))) t = exprgen::ReuseLocalNames(t);
    if (r.Pct(static_cast<int>(c.C("p_mutant", 25)))) t = exprgen::Mutate(r, t, env);
    if (r.Pct(static_cast<int>(c.C("p_multiline", 10)))) { auto cps = exprgen::CodePoints(t); if (!cps.empty()) { cps.insert(cps.begin() + static_cast<long>(r.Below(cps.size())), "\n"); t.clear(); for (auto& x : cps) t += x; } }
    if (r.Pct(static_cast<int>(c.C("p_ascii", 15)))) t = rslang::ConvertTo(t, rslang::Syntax::ASCII);
    if (prop == "C04" && r.Pct(30)) t = exprgen::Damage(r, t);
    return t;
  }

public:
  const char* Name() const override { return "reusesim"; }
  std::vector<std::string> Properties() const override { return { "C18", "C04" }; }
  uint64_t DefaultRuns(const std::string&, bool thorough) const override { return thorough ? 200000 : 6000; }
  Cfg GenCfg(Rng& r, const std::string& focus, bool thorough) override {
    Cfg c; c["steps"] = thorough ? r.Range(10, 120) : r.Range(10, 60); c["clients"] = r.Range(2, 4);
    c["expr_depth"] = r.Range(1, 3); c["p_mutant"] = r.Range(5, 50); c["p_multiline"] = r.Range(0, 25); c["p_ascii"] = r.Range(0, 30); c["p_reuse_locals"] = r.Range(0, 30); c["p_near_miss"] = r.Pct(50) ? 0 : r.Range(3, 25); c["p_scope_escape"] = r.Pct(70) ? 0 : r.Range(5, 20);
    static const std::vector<int> its{ 20, 200, 2000 }; c["max_iterations"] = r.Pick(its);
    static const std::vector<int> lim{ 0, 1, 2, 5, 100 }; c["cache_limit"] = r.Pick(lim);
    c["uid_policy"] = r.Range(0, 3);
    c["w_parse"] = r.Range(1, 6); c["w_check"] = r.Range(1, 6); c["w_schema"] = r.Range(1, 6); c["w_eval"] = r.Range(1, 6); c["w_static"] = r.Range(0, 4); c["w_edit"] = r.Range(0, 2);
    if (focus == "C04") c["p_mutant"] = r.Range(30, 70);
    return c;
  }
  void Begin(Ctx& c) override {
    if (!reference.Running()) { signal(SIGPIPE, SIG_IGN); reference.Start(PristineHandler); }
    prop = c.focus == "C04" ? "C04" : "C18"; prevKind = "none"; memo.clear();
    proc = InstallTextProc(); proc->limit = 24;
    model = std::make_unique<RSModel>();
    // world: a small model built deterministically from the run seed (generation draws from a separate stream)
    Rng r(Mix(c.runSeed, 0x776f726c64));
    const auto x1 = model->Emplace(CstType::base), x2 = model->Emplace(CstType::base), c1 = model->Emplace(CstType::constant);
    for (auto b : { x1, x2, c1 }) { const int n = r.Range(1, 2); for (int i = 0; i < n; ++i) model->Values().AddBasicElement(b, "e" + std::to_string(i)); }
    const int extra = r.Range(3, 8);
    for (int i = 0; i < extra; ++i) {
      const auto env = EnvOf(*model); exprgen::Gen g(r, env, 2);
      static const std::vector<int> w{ 0, 0, 2, 2, 6, 2, 1, 1 };
      const auto t = AllTypes()[r.Weighted(w)];
      std::string def = t == CstType::structured ? g.StructureDef() : t == CstType::function ? g.FunctionDef(false) : t == CstType::predicate ? g.FunctionDef(true) : (t == CstType::axiom || t == CstType::theorem) ? g.TopLevel(true) : g.TopLevel(false);
      const auto uid = model->Emplace(t, def);
      if (t == CstType::structured) if (const auto* ty = model->GetParse(uid).Typification()) if (auto v = RandomValue(r, *ty, *model)) model->Values().SetStructureData(uid, *v);
    }
    sim::TimeoutTag() = "evaluation"; model->Calculations().RecalculateAll(); sim::TimeoutTag() = "";
    MakeShared();
    // normalising prelude for the library's internal static generators
    { rslang::Parser p; if (p.Parse("1=1", rslang::Syntax::MATH)) { (void)rslang::AST2String::Apply(p.AST()); (void)rslang::Generator::FromTree(p.AST(), rslang::Syntax::MATH); } (void)rslang::ConvertTo("1=1", rslang::Syntax::ASCII); (void)rslang::Generator::StructureFor("S1", rslang::Typification::Integer().Bool()); }
    c.Count("knob.max_iterations=" + std::to_string(c.C("max_iterations")));
  }
  void Destroy() override { interp.reset(); schemaAuditor.reset(); auditor.reset(); parser.reset(); model.reset(); RemoveTextProc(); proc = nullptr; }

  bool GenOp(Ctx& c, Op& op) override {
    auto& r = c.gen;
    op.client = static_cast<int>(c.sched.Below(static_cast<uint64_t>(c.C("clients", 2))));   // whose call runs next
    const std::vector<int> w{ (int)c.C("w_parse"), (int)c.C("w_check"), (int)c.C("w_schema"), (int)c.C("w_eval"), (int)c.C("w_static"), (int)c.C("w_edit") };
    const int64_t hint = r.Pct(60) ? 0 : r.Range(1, 2);
    switch (r.Weighted(w)) {
    case 0: op.kind = r.Pct(80) ? "Parse" : "ApiParse"; op.n = { hint }; op.s = { GenInput(c, r.Pct(50), r.Pct(15)) }; return true;
    case 1: op.kind = "CheckType"; op.n = { hint }; op.s = { GenInput(c, r.Pct(50), r.Pct(20)) }; return true;
    case 2: {
      const int k = static_cast<int>(r.Below(3));
      if (k == 0) { op.kind = "SchemaEvaluate"; op.s = { GenInput(c, r.Pct(50), false) }; }
      else if (k == 1) { op.kind = "SchemaCheckExpression"; op.n = { hint }; op.s = { GenInput(c, r.Pct(50), r.Pct(15)) }; }
      else { static const std::vector<int> tw{ 1, 1, 2, 2, 5, 2, 1, 1 }; const auto t = AllTypes()[r.Weighted(tw)]; op.kind = "SchemaCheckConstituenta"; op.n = { static_cast<int64_t>(t) };
        op.s = { GenInput(c, semantic::IsLogical(t), semantic::IsCallable(t)), std::string(1, LetterOf(t)) + std::to_string(r.Range(1, 30)) }; if (semantic::IsBaseSet(t) && r.Pct(80)) op.s[0] = ""; }
      return true;
    }
    case 3: op.kind = "Evaluate"; op.n = { hint }; op.s = { GenInput(c, r.Pct(40), false) }; return true;
    case 4: {
      const int k = static_cast<int>(r.Below(4));
      if (k == 0) { op.kind = "Convert"; op.n = { r.Range(1, 2) }; op.s = { GenInput(c, r.Pct(50), r.Pct(15)) }; }
      else if (k == 1) { op.kind = "AstString"; op.s = { GenInput(c, r.Pct(50), r.Pct(15)) }; }
      else if (k == 2) { op.kind = "StructureFor"; exprgen::Env env = EnvOf(*model); exprgen::Gen g(r, env, 2); op.s = { g.StructureDef() }; }
      else { op.kind = "Literal"; exprgen::Env env = EnvOf(*model); exprgen::Gen g(r, env, 2); op.s = { g.StructureDef() }; }
      return true;
    }
    default: {
      const auto l = ListOf(*model);
      if (r.Pct(50) && l.size() < 16) { op.kind = "EditEmplace"; op.n = { static_cast<int64_t>(CstType::term) }; op.s = { GenInput(c, false, false) }; }
      else { op.kind = "EditSetExpr"; op.n = { static_cast<int64_t>(r.Below(l.size())) }; op.s = { GenInput(c, r.Pct(30), false) }; }
      return true;
    }
    }
  }

  void Exec(Ctx& c, const Op& op) override {
    const std::string& k = op.kind; const std::string& text = op.S(0);
    const auto hint = static_cast<rslang::Syntax>(op.N(0) % 3);
    const std::string trig = prevKind + ">" + k;
    c.nontrivial = true;
    Obs shared, fresh; bool compared = true; std::string what = k;
    try {
      if (k == "Parse") { shared = ObsParse(*parser, text, hint); rslang::Parser p; fresh = ObsParse(p, text, hint); }
      else if (k == "ApiParse") {
        const std::string a = api::ParseExpression(text, hint), b = api::ParseExpression(text, hint); shared.extra = a; fresh.extra = b;   // uses a fresh parser inside; two calls bracket nothing: must agree
      }
      else if (k == "CheckType") { shared = ObsCheck(*auditor, text, hint); rslang::Auditor a(model->RSLang(), model->RSLang().VCContext(), model->RSLang().ASTContext()); fresh = ObsCheck(a, text, hint); }
      else if (k == "SchemaEvaluate") {
        const auto r1 = model->RSLang().Evaluate(text); shared.ok = r1.has_value(); if (r1) shared.type = TypeOf(*r1);
        auto a = model->RSLang().MakeAuditor(); fresh.ok = a->CheckExpression(text); if (fresh.ok) fresh.type = TypeOf(a->GetType());
      }
      else if (k == "SchemaCheckExpression") { shared = ObsSchemaAuditor(*schemaAuditor, false, "", text, CstType::term, hint); auto a = model->RSLang().MakeAuditor(); fresh = ObsSchemaAuditor(*a, false, "", text, CstType::term, hint); }
      else if (k == "SchemaCheckConstituenta") { const auto t = TypeFrom(op.N(0)); shared = ObsSchemaAuditor(*schemaAuditor, true, op.S(1), text, t, hint); auto a = model->RSLang().MakeAuditor(); fresh = ObsSchemaAuditor(*a, true, op.S(1), text, t, hint); }
      else if (k == "Evaluate") {
        sim::TimeoutTag() = "evaluation";
        shared = ObsEval(*interp, text, hint);
        rslang::Interpreter in(model->RSLang(), model->RSLang().ASTContext(), model->Calculations().Context()); fresh = ObsEval(in, text, hint); sim::TimeoutTag() = "";
        if (!shared.ok && shared.errors.find("34") == std::string::npos) c.Probe("failed_evaluation"); if (shared.ok) c.Probe("successful_evaluation");
      }
      else if (k == "Convert" || k == "AstString" || k == "StructureFor" || k == "Literal") {
        // static generators: the answer must not depend on what was processed before — ask, interfere, ask again; and compare with the first answer of this run
        std::string arg = text;
        if (k == "StructureFor" || k == "Literal") { auto a = model->RSLang().MakeAuditor(); if (!a->CheckExpression(text)) arg = "<untyped>"; else { const auto* ty = std::get_if<rslang::Typification>(&a->GetType()); if (!ty || !ty->IsCollection()) arg = "<not a domain>"; else arg = rslang::ConvertTo(ty->B().Base().ToString(), rslang::Syntax::ASCII); } }
        auto call = [&]() -> std::string { return StaticCall(k, static_cast<int>(op.N(0)), arg); };
        shared.extra = call();
        { rslang::Parser p; if (p.Parse("∀α∈X1 (α∈X1 & 1=1)", rslang::Syntax::MATH)) { (void)rslang::AST2String::Apply(p.AST()); (void)rslang::Generator::FromTree(p.AST(), rslang::Syntax::ASCII); } (void)rslang::ConvertTo("X1 \\union X2", rslang::Syntax::MATH); (void)rslang::Generator::StructureFor("S9", rslang::Typification("X1").Bool().Bool()); }
        fresh.extra = call();
        const std::string key = k + std::to_string(op.N(0) % 2) + "|" + text;
        if (auto it = memo.find(key); it != memo.end() && !c.Failed() && it->second != shared.extra) { c.Fail(prop == "C04" ? "C18" : "C18", "static_generator_memo", trig, k + " of '" + text + "' answered '" + shared.extra + "' but earlier in this run '" + it->second + "'"); return; }
        memo.emplace(key, shared.extra);
        // ... and with a process whose generators have processed nothing before
        if (const auto ref = reference.Ask(k + '\x1f' + std::to_string(op.N(0)) + '\x1f' + arg)) {
          c.Oracle("static_generator_vs_pristine_process"); c.Probe("pristine_reference_asked");
          if (*ref != shared.extra) { c.Fail("C18", "static_generator_pristine", trig, k + " of '" + arg + "' answered '" + shared.extra + "', a process that has processed nothing else answers '" + *ref + "'"); return; }
        } else c.Probe("pristine_reference_unavailable");
        what = k + " (static generator, asked twice around other inputs)";
      }
      else if (k == "EditEmplace") { model->Emplace(TypeFrom(op.N(0)), text); compared = false; memo.clear(); c.Probe("context_changed_between_calls"); }
      else if (k == "EditSetExpr") { const auto l = ListOf(*model); if (!l.empty()) model->SetExpressionFor(l[static_cast<size_t>(op.N(0)) % l.size()], text); compared = false; memo.clear(); c.Probe("context_changed_between_calls"); }
      else compared = false;
    } catch (const std::exception& ex) {
      c.Fail("C04", "escaped_exception", k + "/" + typeid(ex).name(), std::string("exception escaped ") + Brief(op) + ": " + ex.what());
      return;
    }
    if (compared && prop == "C04") {
      // C04 facet: whatever state the long-lived analysers are in, error positions stay inside the input and the verdict matches the log
      c.Oracle("reused_analyser_positions");
      size_t at = 0; const std::string& e = shared.errors;
      while ((at = e.find('@', at)) != std::string::npos) { const long pos = std::strtol(e.c_str() + at + 1, nullptr, 10); if (pos < 0 || pos > static_cast<long>(text.size()) + 16) { c.Fail("C04", "error_position", trig + "/reused-analyser", k + " of '" + text + "' reports an error at position " + std::to_string(pos) + ", input has " + std::to_string(text.size()) + " bytes"); return; } ++at; }
    }
    if (compared) {
      c.Oracle("shared_equals_fresh");
      if (const auto d = shared.Diff(fresh); !d.empty()) { c.Fail("C18", "shared_vs_fresh", trig, what + " of '" + text + "': " + d); return; }
      if (!shared.ok) c.Probe("failed_call");
    }
    prevKind = k;
    c.State(HashStr(k + "#" + (shared.ok ? "1" : "0") + shared.errors + shared.type + shared.value + std::to_string(shared.iterations)));
  }
  void End(Ctx&) override {}
  unsigned WatchdogSecs() const override { return 3; }
  std::string CrashProperty(const std::string& focus, const Op& op) const override { if (focus == "C04") return "C04"; return op.kind == "Evaluate" ? "C02" : "C04"; }
  std::vector<std::string> RealComponents() const override { return { "rslang::Parser, Auditor, TypeAuditor, ValueAuditor, Interpreter/ASTInterpreter, lexers, RSParser", "semantic::Schema (internal auditor), SchemaAuditor", "static generators: Generator::FromTree, AST2String::Apply, Generator::StructureFor, ConvertTo, operator\"\"_t", "RSModel as type/data context" }; }
  std::vector<std::string> StubComponents() const override { return { "iteration limit and lazy-set cache limit set per run (hooks H3/H2)", "identifier entropy (hook H1)", "text processor stub" }; }
  std::string Rule(const std::string& focus) const override {
    return std::string("one evaluation = one seeded run: 10-60 analysis calls by 2-4 clients (scheduler decides whose call runs next, i.e. each call's predecessor) on one long-lived Parser, Auditor, SchemaAuditor, the Schema's internal auditor and one Interpreter over a generated model (2 base sets, a constant set, 3-8 derived constituents with data), plus calls into the static generators and edits of the shared context; inputs: valid / mutated / function definitions / multi-line / ASCII or MATH with and without hint / evaluations failing on iteration limit, debool, missing value")
      + (focus == "C04" ? "; inputs additionally storage-damaged (invalid UTF-8); oracle = no crash/UB/escaped exception" : "; after each call the same call on freshly constructed objects must give identical verdict, errors (id, position, parameters), type, arguments, value class, tree, generated text in both syntaxes, value and iteration count; static generators asked twice around interfering inputs, against the first answer of the run, and against a pristine reference process (forked before the worker ran any library code; each question answered in a fresh fork of it)")
      + ". distinct_nontrivial = distinct whole-run call-kind sequences.";
  }
  std::vector<std::string> Assumptions(const std::string&) const override { return { "static generators cannot be re-created inside a process; their fresh instance is a reference process forked before any library code ran, plus ask / interfere / ask-again within the run", "operator\"\"_t is only fed typifications the checker accepted (it asserts otherwise)" }; }

};

} // namespace

int main(int argc, char** argv) { ReuseSim e; return sim::Main(argc, argv, e); }
