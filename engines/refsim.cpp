// refsim — C17 (and the reference-text facet of C04): RefsManager / Reference / ManagedText / LexicalTerm under
// resolve + insert/erase histories, with an injected term context (N4) and text processor (N3).
// Expectations come from the way texts are assembled from pieces, classified by an independent strict checker.
#include "simkit.hpp"

#include "ccl/lang/RefsManager.h"
#include "ccl/lang/LexicalTerm.h"
#include "ccl/lang/TextEnvironment.h"
#include "ccl/lang/EntityTermContext.hpp"

#include <memory>

using namespace sim;
using namespace ccl::lang;
using ccl::StrRange;

namespace {

const std::vector<std::string> kTags{ "NOUN", "NPRO", "INFN", "VERB", "ADJF", "ADJS", "PRTF", "PRTS", "ADVB", "GRND", "COMP", "PRED", "NUMR",
  "CONJ", "INTJ", "PRCL", "PREP", "PNCT", "pres", "past", "futr", "1per", "2per", "3per", "sing", "plur", "masc", "femn", "neut",
  "nomn", "gent", "datv", "ablt", "accs", "loct" };
int TagIndex(const std::string& t) { for (size_t i = 0; i < kTags.size(); ++i) if (kTags[i] == t) return static_cast<int>(i); return -1; }
std::string CanonTags(std::set<int> idx) { std::string r; for (int i : idx) { if (!r.empty()) r += ","; r += kTags[static_cast<size_t>(i)]; } return r; }

std::vector<std::string> Cps(const std::string& s) {
  std::vector<std::string> r;
  for (size_t i = 0; i < s.size();) {
    const unsigned char c = static_cast<unsigned char>(s[i]);
    size_t n = c < 0x80 ? 1 : (c & 0x20) == 0 ? 2 : (c & 0x10) == 0 ? 3 : 4;
    if (i + n > s.size()) n = s.size() - i;
    r.push_back(s.substr(i, n)); i += n;
  }
  return r;
}
std::string Join(const std::vector<std::string>& v, size_t a, size_t b) { std::string r; for (size_t i = a; i < b && i < v.size(); ++i) r += v[i]; return r; }
bool ValidUtf8(const std::string& s) {
  for (size_t i = 0; i < s.size();) {
    const unsigned char c = static_cast<unsigned char>(s[i]);
    size_t n; if (c < 0x80) n = 1; else if ((c & 0xE0) == 0xC0) n = 2; else if ((c & 0xF0) == 0xE0) n = 3; else if ((c & 0xF8) == 0xF0) n = 4; else return false;
    if (i + n > s.size()) return false;
    for (size_t k = 1; k < n; ++k) if ((static_cast<unsigned char>(s[i + k]) & 0xC0) != 0x80) return false;
    i += n;
  }
  return true;
}
inline bool IsWs(char ch) { return ch == ' ' || ch == '\t' || ch == '\n' || ch == '\r' || ch == '\v' || ch == '\f'; }
std::string Trim(const std::string& s) { size_t a = 0, b = s.size(); while (a < b && IsWs(s[a])) ++a; while (b > a && IsWs(s[b - 1])) --b; return s.substr(a, b - a); }
std::vector<std::string> Split(const std::string& s, char d) { std::vector<std::string> r; std::string cur; for (char c : s) { if (c == d) { r.push_back(cur); cur.clear(); } else cur += c; } r.push_back(cur); return r; }
bool HasSpecial(const std::string& s) { return s.find_first_of("@{}|") != std::string::npos; }

// ---- independent strict classification of one piece
enum PieceKind { PLAIN, STRAY_AT, GOOD_ENTITY, GOOD_COLLAB, BAD_BALANCED, WILD };
struct Piece {
  PieceKind kind{ WILD };
  std::string text;
  std::string entity; std::set<int> tags;   // GOOD_ENTITY
  int offset{ 0 }; std::string nominal;     // GOOD_COLLAB
  std::string Canonical() const {
    if (kind == GOOD_ENTITY) return "@{" + entity + "|" + CanonTags(tags) + "}";
    if (kind == GOOD_COLLAB) return "@{" + std::to_string(offset) + "|" + nominal + "}";
    return text;
  }
};
Piece Classify(const std::string& t) {
  Piece p; p.text = t;
  if (t == "@") { p.kind = STRAY_AT; return p; }
  if (t.find_first_of("@{}") == std::string::npos) { p.kind = PLAIN; return p; }   // '|' alone is harmless in plain text
  if (t.size() < 3 || t.compare(0, 2, "@{") != 0 || t.back() != '}') return p;
  const std::string body = t.substr(2, t.size() - 3);
  if (body.find_first_of("@{}") != std::string::npos) return p;    // nested / unbalanced => wild
  p.kind = BAD_BALANCED;
  if (body.empty()) return p;     // "@{}" : balanced, never a reference
  const auto f = Split(body, '|');
  if (f.size() < 2 || f.size() > 4 || f[0].empty()) return p;
  const unsigned char c0 = static_cast<unsigned char>(f[0][0]);
  if ((c0 >= 'A' && c0 <= 'Z') || (c0 >= 'a' && c0 <= 'z')) {
    std::set<int> tags;
    if (f.size() == 2) { for (auto& x : Split(f[1], ',')) { const int i = TagIndex(Trim(x)); if (i >= 0) tags.insert(i); } }
    else {
      std::vector<std::string> fields(f.begin() + 1, f.end());
      if (fields.back().empty()) { p.kind = WILD; return p; }     // empty trailing field: fault-only class
      if (fields.back()[0] >= '0' && fields.back()[0] <= '9') fields.pop_back();
      for (auto& x : fields) { const int i = TagIndex(Trim(x)); if (i >= 0) tags.insert(i); }
    }
    if (tags.empty()) return p;
    p.kind = GOOD_ENTITY; p.entity = f[0]; p.tags = tags; return p;
  }
  // collaboration: exactly two fields, first an integer
  if (f.size() != 2) return p;
  size_t i = 0; if (f[0][0] == '-') i = 1; if (i >= f[0].size()) return p;
  for (size_t k = i; k < f[0].size(); ++k) if (f[0][k] < '0' || f[0][k] > '9') return p;
  if (f[0].size() - i > 5) { p.kind = WILD; return p; }           // offsets beyond int16: fault-only class
  const long v = std::stol(f[0]);
  if (v > 32767 || v < -32768) { p.kind = WILD; return p; }
  p.kind = GOOD_COLLAB; p.offset = static_cast<int>(v); p.nominal = f[1]; return p;
}

struct SimProc final : TextProcessor {
  bool faultEmpty{ false };
  std::string Inflect(const std::string& target, const Morphology& form) const override { return faultEmpty ? std::string{} : target + "~" + form.ToString(); }
  std::string InflectDependant(const std::string& dependant, const std::string& main) const override { return faultEmpty ? std::string{} : dependant + "^" + main; }
};
struct TermModel { std::string nominal; std::map<std::string, std::string> manual; };   // manual: canonical tag string -> text
struct SimContext final : EntityTermContext {
  std::map<std::string, LexicalTerm> terms;
  const LexicalTerm* At(const std::string& e) const override { auto it = terms.find(e); return it == terms.end() ? nullptr : &it->second; }
  bool Contains(const std::string& e) const override { return terms.count(e) > 0; }
};

Morphology MorphFromCanon(const std::string& canon) { return Morphology{ std::string_view{ canon } }; }

class RefSim final : public Engine {
  SimContext ctx;
  std::map<std::string, TermModel> model;
  SimProc* proc{ nullptr };
  std::unique_ptr<RefsManager> mgr;
  std::vector<std::string> shadow;       // code points of the resolved text as edited
  bool mgrLoaded{ false };
  ManagedText mt; std::string mtRawExpect; bool mtKnown{ false };
  LexicalTerm lt;
  bool skipResolving{ false };
  bool damaged{ false };                 // focus C04: texts are storage-damaged, only fault monitoring applies
  std::string prop{ "C17" };

  const std::vector<std::string> entities{ "X1", "X2", "X11", "D1", "Term", "s" };

  void RebuildTerm(const std::string& e) {
    auto it = model.find(e);
    if (it == model.end()) { ctx.terms.erase(e); return; }
    LexicalTerm t{ it->second.nominal };
    for (auto& [tags, text] : it->second.manual) t.SetForm(MorphFromCanon(tags), text);
    ctx.terms[e] = t;
  }
  // expected resolution of an entity reference; nullopt = "some non-empty marker / fallback, wording not predicted"
  std::optional<std::string> ExpectEntity(const Piece& p) const {
    auto it = model.find(p.entity);
    if (it == model.end()) return std::nullopt;
    const std::string canon = CanonTags(p.tags);
    if (auto m = it->second.manual.find(canon); m != it->second.manual.end()) { if (m->second.empty()) return it->second.nominal.empty() ? std::nullopt : std::optional<std::string>{ it->second.nominal }; return m->second; }
    if (proc->faultEmpty) return it->second.nominal.empty() ? std::nullopt : std::optional<std::string>{ it->second.nominal };
    return it->second.nominal + "~" + canon;
  }

  // ---- text generation
  std::string GenPlain(Rng& r) {
    static const std::vector<std::string> atoms{ "a", "b", " ", "word", ".", ",", "|", "x1", "\xD0\xB6", "\xCE\xB1", "\xE2\x88\x80", "\xF0\x9D\x94\xB9", "\xD1\x82\xD0\xB5\xD0\xBA\xD1\x81\xD1\x82", "(", ")", "1", "-" };
    std::string s; const int n = r.Range(0, 5); for (int i = 0; i < n; ++i) s += r.Pick(atoms); return s;
  }
  std::string GenTags(Rng& r) {
    std::string s; const int n = r.Range(1, 3);
    static const std::vector<std::string> seps{ ",", ",", ",", ", ", ",\t", ",\n  ", " ,", "\t, " };   // tags may be surrounded by any white space
    for (int i = 0; i < n; ++i) { if (i) s += r.Pick(seps); s += r.Pct(70) ? kTags[static_cast<size_t>(r.Range(24, 34))] : r.Pick(kTags); }
    if (r.Pct(8)) s = (r.Pct(50) ? "\t" : "\n") + s; if (r.Pct(8)) s += r.Pct(50) ? "\t" : " \n";
    return s;
  }
  std::string GenGoodEntity(Rng& r) {
    const std::string e = r.Pct(85) ? r.Pick(entities) : std::string("Q") + std::to_string(r.Range(1, 3));
    if (r.Pct(80)) return "@{" + e + "|" + GenTags(r) + "}";
    std::string s = "@{" + e; const int n = r.Range(2, 3); for (int i = 0; i < n - 1; ++i) s += "|" + kTags[static_cast<size_t>(r.Range(24, 34))];
    if (r.Pct(50)) s += "|" + kTags[static_cast<size_t>(r.Range(24, 34))]; else s += "|" + std::to_string(r.Range(0, 9));
    return s + "}";
  }
  std::string GenGoodCollab(Rng& r) {
    static const std::vector<int> offs{ 1, -1, 2, -2, 1, -1, 3, 0, 5, -7, 32767, -32768 };
    static const std::vector<std::string> texts{ "big", "\xD1\x83\xD0\xBC\xD0\xBD\xD1\x8B\xD0\xB9", "", "a b", "x,y" };
    return "@{" + std::to_string(r.Pick(offs)) + "|" + r.Pick(texts) + "}";
  }
  std::string GenBad(Rng& r) {
    static const std::vector<std::string> bad{ "@{X1}", "@{|nomn}", "@{X1|zzzz}", "@{X1|}", "@{}", "@{1|a|b}", "@{-|a}", "@{ X1|nomn}", "@{1x|a}", "@{X1|nomn|sing|plur|datv}", "@{\xD0\xB6|nomn}", "@{+1|a}" };
    return r.Pick(bad);
  }
  std::string GenWild(Rng& r) {
    static const std::vector<std::string> wild{ "@{X1|nomn", "@{", "}", "{", "@{X1|nomn|}", "@{X1|nomn|sing|}", "@{99999999999|t}", "@{40000|t}", "@{-99999|t}", "@{X1|@{X2|nomn}}", "@{@{X1|nomn}|nomn}", "{@{X1|nomn}}", "@{X1|{nomn}}", "@{1|a}}", "@@", "@{X1|nomn}@" };
    return r.Pick(wild);
  }
  void GenPieces(Ctx& c, Op& op, bool allowWild) {
    auto& r = c.gen; const int n = r.Range(1, 7);
    const int pWild = allowWild ? static_cast<int>(c.C("p_wild", 10)) : 0;
    for (int i = 0; i < n; ++i) {
      const int k = static_cast<int>(r.Below(100));
      if (k < 35) op.s.push_back(GenPlain(r));
      else if (k < 60) op.s.push_back(GenGoodEntity(r));
      else if (k < 75) op.s.push_back(GenGoodCollab(r));
      else if (k < 85) op.s.push_back(GenBad(r));
      else if (k < 85 + pWild) op.s.push_back(GenWild(r));
      else if (k < 97) op.s.push_back(GenPlain(r));
      else op.s.push_back("@");
    }
    if (damaged) Damage(c, op);
  }
  void Damage(Ctx& c, Op& op) {   // storage faults on a stored text (C04 facet): applied to the concatenation, stored as a single piece
    auto& r = c.gen; std::string t; for (auto& s : op.s) t += s; op.s.clear();
    if (!t.empty()) switch (r.Below(4)) {
      case 0: t.resize(r.Below(t.size())); op.n.push_back(1); break;                                      // truncation (possibly inside a code point)
      case 1: t[r.Below(t.size())] = static_cast<char>(r.Below(256)); op.n.push_back(2); break;            // flipped byte
      case 2: t.insert(r.Below(t.size() + 1), 1, static_cast<char>(0x80 + r.Below(0x80))); op.n.push_back(3); break;   // stray continuation / lead byte
      default: op.n.push_back(0); break;
    }
    op.s.push_back(t);
  }

public:
  const char* Name() const override { return "refsim"; }
  std::vector<std::string> Properties() const override { return { "C17", "C04" }; }
  uint64_t DefaultRuns(const std::string& focus, bool thorough) const override { return focus == "C04" ? (thorough ? 1500000 : 60000) : (thorough ? 3000000 : 120000); }
  Cfg GenCfg(Rng& r, const std::string&, bool) override {
    Cfg c; c["steps"] = r.Range(6, 50);
    c["p_wild"] = r.Pct(40) ? 0 : r.Range(3, 12);
    c["w_resolve"] = r.Range(2, 6); c["w_edit"] = r.Range(0, 10); c["w_output"] = r.Range(0, 4); c["w_mt"] = r.Range(0, 6); c["w_lt"] = r.Range(0, 4);
    c["w_ctx"] = r.Range(1, 5); c["w_env"] = r.Range(0, 2); c["w_extract"] = r.Range(0, 3);
    return c;
  }
  void Begin(Ctx& c) override {
    prop = c.focus == "C04" ? "C04" : "C17"; damaged = c.focus == "C04";
    ctx.terms.clear(); model.clear();
    auto p = std::make_unique<SimProc>(); proc = p.get(); TextEnvironment::SetProcessor(std::move(p));
    TextEnvironment::Instance().skipResolving = false; skipResolving = false;
    mgr = std::make_unique<RefsManager>(ctx); shadow.clear(); mgrLoaded = false;
    mt = ManagedText{}; mtKnown = false; mtRawExpect.clear(); lt = LexicalTerm{};
    // initial context: some entities defined
    model["X1"] = TermModel{ "man", {} }; model["X2"] = TermModel{ "\xD0\xBC\xD0\xB8\xD1\x80", {} }; model["D1"] = TermModel{ "", {} };
    for (auto& [e, t] : model) RebuildTerm(e);
  }

  bool GenOp(Ctx& c, Op& op) override {
    auto& r = c.gen;
    const std::vector<int> w{ (int)c.C("w_resolve"), mgrLoaded ? (int)c.C("w_edit") : 0, mgrLoaded ? (int)c.C("w_output") : 0, (int)c.C("w_mt"), (int)c.C("w_lt"), (int)c.C("w_ctx"), (int)c.C("w_env"), (int)c.C("w_extract") };
    const int len = static_cast<int>(shadow.size());
    switch (r.Weighted(w)) {
    case 0: op.kind = "Resolve"; GenPieces(c, op, true); return true;
    case 1:
      if (r.Pct(45)) { op.kind = "Insert"; op.s = { r.Pct(65) ? GenGoodEntity(r) : r.Pct(80) ? GenGoodCollab(r) : GenBad(r) }; op.n = { r.Range(0, len), r.Pct(25), static_cast<int64_t>(r.Below(16)) }; }
      else if (r.Pct(85)) { op.kind = "EraseIn"; const int a = r.Range(0, len); op.n = { a, r.Pct(15) ? a : r.Range(a, std::min(len, a + 12)), r.Pct(40) }; }
      else { op.kind = "FirstIn"; const int a = r.Range(0, len); op.n = { a, r.Range(a, len) }; }
      if (mgrLoaded && !mgr->get().empty() && r.Pct(35) && op.kind != "FirstIn") {   // aim at reference borders
        const auto& ref = mgr->get()[r.Below(mgr->get().size())]; const int d = r.Range(-1, 1);
        if (op.kind == "Insert") op.n[0] = std::clamp(r.Pct(50) ? ref.position.start + d : ref.position.finish + d, 0, len);
        else { op.n[0] = std::clamp(ref.position.start + d, 0, len); op.n[1] = std::clamp(ref.position.finish + r.Range(-1, 1), (int)op.n[0], len); }
      }
      return true;
    case 2: if (r.Pct(60)) { op.kind = "OutputRefs"; } else {
        op.kind = "OutputRefsRange"; const int a = r.Range(0, std::max(0, len - 1)); op.n = { a, r.Range(a, len) };
        if (mgrLoaded && !mgr->get().empty() && r.Pct(60)) {   // selections that start / end exactly at reference borders (copy of a selection)
          std::vector<int> borders{ 0, len }; for (auto& x : mgr->get()) { borders.push_back(x.position.start); borders.push_back(x.position.finish); }
          int x = std::clamp(r.Pick(borders), 0, std::max(0, len - 1)), y = std::clamp(r.Pct(50) ? r.Pick(borders) : len, 0, len); if (x > y) std::swap(x, y); op.n = { x, y };
        }
      }
      return true;
    case 3:
      switch (r.Below(5)) {
      case 0: op.kind = "MT_InitFrom"; GenPieces(c, op, true); return true;
      case 1: op.kind = "MT_SetRaw"; GenPieces(c, op, true); return true;
      case 2: case 3: { op.kind = r.Pct(50) ? "MT_TranslateRaw" : "MT_TranslateRefs"; const int n = r.Range(1, 3); for (int i = 0; i < n; ++i) { op.s.push_back(r.Pick(entities)); op.s.push_back(r.Pct(80) ? r.Pick(entities) : "N" + std::to_string(r.Range(1, 9))); } return true; }
      default: op.kind = "MT_UpdateFrom"; return true;
      }
    case 4:
      switch (r.Below(3)) {
      case 0: op.kind = "LT_SetText"; GenPieces(c, op, true); return true;
      case 1: op.kind = "LT_SetForm"; op.s = { GenTags(r), r.Pct(85) ? GenPlain(r) + "f" : "" }; return true;
      default: op.kind = "LT_GetForm"; op.s = { GenTags(r) }; return true;
      }
    case 5:
      switch (r.Below(4)) {
      case 0: case 1: op.kind = "Ctx_SetTerm"; op.s = { r.Pick(entities), r.Pct(85) ? GenPlain(r) + "t" : "" }; return true;
      case 2: op.kind = "Ctx_SetForm"; op.s = { r.Pick(entities), GenTags(r), r.Pct(85) ? GenPlain(r) + "m" : "" }; return true;
      default: op.kind = "Ctx_Remove"; op.s = { r.Pick(entities) }; return true;
      }
    case 6: if (r.Pct(60)) { op.kind = "Proc_Fault"; op.n = { r.Pct(50) }; } else { op.kind = "SkipResolving"; op.n = { r.Pct(50) }; } return true;
    default: op.kind = "ExtractOnly"; GenPieces(c, op, true); return true;
    }
  }

  // ---- piece analysis
  struct Analysis { std::vector<Piece> pieces; std::string text; bool clear{ true }; bool adjacent{ false }; std::vector<size_t> good; std::vector<int> start; };
  Analysis Analyse(const Op& op) const {
    Analysis a; int pos = 0;
    for (auto& s : op.s) {
      Piece p = Classify(s);
      if (!ValidUtf8(s)) p.kind = WILD;
      if (p.kind == WILD) a.clear = false;
      a.start.push_back(pos); pos += static_cast<int>(Cps(s).size());
      if (p.kind == GOOD_ENTITY || p.kind == GOOD_COLLAB) { a.good.push_back(a.pieces.size()); if (!a.pieces.empty() && a.pieces.back().kind == STRAY_AT) a.adjacent = true; }
      // a stray '@' directly before a bad-balanced piece or another '@' is ambiguous: treat as wild
      if (!a.pieces.empty() && a.pieces.back().kind == STRAY_AT && (p.kind == BAD_BALANCED || p.kind == STRAY_AT)) a.clear = false;
      a.pieces.push_back(p); a.text += s;
    }
    if (damaged) a.clear = false;
    return a;
  }

  // oracle 1: extraction
  bool CheckExtraction(Ctx& c, const Analysis& a, const std::vector<Reference>& refs, const std::string& kind) {
    c.Oracle("extraction");
    // generic (all texts): ordered, non-overlapping, in range, each range spells a parsable reference
    const auto cps = Cps(a.text); int last = -1;
    for (auto& r : refs) {
      if (r.position.start < 0 || r.position.finish > static_cast<int>(cps.size()) || r.position.start >= r.position.finish) { c.Fail(prop, "extraction", kind + "/range", "reference range out of text: [" + std::to_string(r.position.start) + "," + std::to_string(r.position.finish) + ") in " + a.text); return false; }
      if (r.position.start < last) { c.Fail(prop, "extraction", kind + "/overlap", "reference ranges overlap or are unordered in " + a.text); return false; }
      last = r.position.finish;
      const std::string spell = Join(cps, static_cast<size_t>(r.position.start), static_cast<size_t>(r.position.finish));
      if (spell.size() < 4 || spell.compare(0, 2, "@{") != 0 || spell.back() != '}') { c.Fail(prop, "extraction", kind + "/range", "recorded range does not delimit an @{...} occurrence: '" + spell + "' in " + a.text); return false; }
    }
    if (!a.clear) return true;
    const std::string disc = a.adjacent ? "/after-stray-at" : "";
    if (refs.size() != a.good.size()) { c.Fail("C17", "extraction", kind + "/count" + disc, "found " + std::to_string(refs.size()) + " references, text has " + std::to_string(a.good.size()) + " well-formed ones: " + a.text); return false; }
    for (size_t i = 0; i < refs.size(); ++i) {
      const Piece& p = a.pieces[a.good[i]]; const auto& r = refs[i];
      const int st = a.start[a.good[i]], fin = st + static_cast<int>(Cps(p.text).size());
      if (r.position.start != st || r.position.finish != fin) { c.Fail("C17", "extraction", kind + "/position" + disc, "reference #" + std::to_string(i) + " at [" + std::to_string(r.position.start) + "," + std::to_string(r.position.finish) + ") expected [" + std::to_string(st) + "," + std::to_string(fin) + ") in " + a.text); return false; }
      if ((p.kind == GOOD_ENTITY) != r.IsEntity()) { c.Fail("C17", "extraction", kind + "/kind", "reference kind mismatch for " + p.text); return false; }
      if (p.kind == GOOD_ENTITY) {
        if (std::string{ r.GetEntity() } != p.entity || r.GetForm().ToString() != CanonTags(p.tags)) { c.Fail("C17", "extraction", kind + "/fields", "entity reference fields differ for " + p.text + ": got " + r.ToString()); return false; }
      } else if (r.GetOffset() != p.offset || r.GetNominal() != p.nominal) { c.Fail("C17", "extraction", kind + "/fields", "collaboration fields differ for " + p.text + ": got " + r.ToString()); return false; }
      if (r.ToString() != p.Canonical()) { c.Fail("C17", "canonical_spelling", kind, "ToString of " + p.text + " is " + r.ToString() + " expected " + p.Canonical()); return false; }
      // canonical spelling is a fixed point of parsing
      const auto again = Reference::Parse(r.ToString());
      if (!again.IsValid() || again.ToString() != r.ToString()) { c.Fail("C17", "canonical_spelling", kind + "/reparse", "canonical spelling does not re-parse to itself: " + r.ToString()); return false; }
    }
    return true;
  }

  // oracle 2: structure of resolved text (orig = references with positions in the original, res = same references after Resolve)
  bool CheckResolved(Ctx& c, const Analysis& a, const std::vector<Reference>& orig, const std::vector<Reference>& res, const std::string& resolved, const std::string& kind) {
    c.Oracle("resolved_structure");
    if (orig.size() != res.size()) { c.Fail(prop, "resolved_structure", kind + "/count", "Resolve keeps " + std::to_string(res.size()) + " references, extraction finds " + std::to_string(orig.size())); return false; }
    const auto cps = Cps(a.text); std::string expect; size_t cur = 0; int rpos = 0;
    for (size_t i = 0; i < orig.size(); ++i) {
      const std::string between = Join(cps, cur, static_cast<size_t>(orig[i].position.start));
      expect += between; rpos += static_cast<int>(Cps(between).size());
      const std::string& rt = res[i].resolvedText; const int rl = static_cast<int>(Cps(rt).size());
      if (res[i].position.start != rpos || res[i].position.finish != rpos + rl) { c.Fail(prop, "resolved_ranges", kind, "reference #" + std::to_string(i) + " recorded at [" + std::to_string(res[i].position.start) + "," + std::to_string(res[i].position.finish) + ") but its replacement occupies [" + std::to_string(rpos) + "," + std::to_string(rpos + rl) + ") in resolution of " + a.text); return false; }
      if (rt.empty()) { c.Fail(prop, "resolved_structure", kind + "/empty-resolution", "reference " + orig[i].ToString() + " resolved to empty text"); return false; }
      expect += rt; rpos += rl; cur = static_cast<size_t>(orig[i].position.finish);
    }
    expect += Join(cps, cur, cps.size());
    if (expect != resolved) { c.Fail(prop, "resolved_structure", kind + "/bytes", "resolved text is not original with references replaced: got '" + resolved + "' expected '" + expect + "' for " + a.text); return false; }
    if (!a.clear) return true;
    // expected resolutions for clearly classified texts
    for (size_t i = 0; i < res.size(); ++i) {
      const Piece& p = a.pieces[a.good[i]];
      if (p.kind == GOOD_ENTITY) {
        if (auto e = ExpectEntity(p); e && *e != res[i].resolvedText) { c.Fail("C17", "resolution_value", kind + "/entity", p.text + " resolved to '" + res[i].resolvedText + "' expected '" + *e + "'"); return false; }
      } else {
        if (p.nominal.empty() || p.offset == 0) continue;
        // master: the |offset|-th entity reference in the direction of the sign
        int cnt = std::abs(p.offset); const Reference* master = nullptr;
        for (long k = static_cast<long>(i) + (p.offset > 0 ? 1 : -1); k >= 0 && k < static_cast<long>(res.size()); k += (p.offset > 0 ? 1 : -1)) if (res[static_cast<size_t>(k)].IsEntity() && --cnt == 0) { master = &res[static_cast<size_t>(k)]; break; }
        if (master && !proc->faultEmpty) {
          const std::string e = p.nominal + "^" + master->resolvedText;
          if (e != res[i].resolvedText) { c.Fail("C17", "resolution_value", kind + "/collaboration", p.text + " resolved to '" + res[i].resolvedText + "' expected '" + e + "'"); return false; }
          c.Probe("collaboration_with_master");
        } else if (!master) c.Probe("collaboration_without_master");
      }
    }
    return true;
  }

  // oracle 3: alignment of the manager's references with the shadow text
  bool CheckAligned(Ctx& c, const std::string& kind) {
    c.Oracle("alignment");
    int last = -1;
    for (size_t i = 0; i < mgr->get().size(); ++i) {
      const auto& r = mgr->get()[i];
      if (r.position.start < 0 || r.position.finish > static_cast<int>(shadow.size()) || r.position.start > r.position.finish) { c.Fail(prop, "alignment", kind + "/range", "reference #" + std::to_string(i) + " range [" + std::to_string(r.position.start) + "," + std::to_string(r.position.finish) + ") outside text of " + std::to_string(shadow.size()) + " code points"); return false; }
      if (r.position.start < last) { c.Fail(prop, "alignment", kind + "/overlap", "reference ranges overlap after " + kind); return false; }
      last = r.position.finish;
      const std::string at = Join(shadow, static_cast<size_t>(r.position.start), static_cast<size_t>(r.position.finish));
      if (at != r.resolvedText) { c.Fail(prop, "alignment", kind + "/text", "range of reference #" + std::to_string(i) + " covers '" + at + "' but its resolution is '" + r.resolvedText + "'"); return false; }
    }
    return true;
  }
  std::string ShadowStr() const { return Join(shadow, 0, shadow.size()); }
  static std::string RefsDump(const std::vector<Reference>& refs) { std::string s; for (auto& r : refs) s += "[" + std::to_string(r.position.start) + "," + std::to_string(r.position.finish) + ")" + r.ToString() + "=" + r.resolvedText + ";"; return s; }

  void Exec(Ctx& c, const Op& op) override {
    const std::string& k = op.kind;
    c.nontrivial = true;
    if (!op.n.empty() && damaged && (k == "Resolve" || k.rfind("MT_", 0) == 0 || k == "LT_SetText" || k == "ExtractOnly")) { static const char* names[]{ "none", "truncated", "flipped_byte", "stray_byte" }; if (op.N(0) > 0 && op.N(0) < 4) c.Fault(std::string("stored_text_") + names[op.N(0)]); }
    if (k == "Resolve" || k == "ExtractOnly") {
      const auto a = Analyse(op);
      if (!a.clear) c.Probe("wild_text"); if (a.adjacent) c.Probe("adjacent_marker"); if (a.good.size() >= 2) c.Probe("multiple_references");
      if (!ValidUtf8(a.text)) {
        // storage-damaged text that is no longer UTF-8: code-point positions are undefined, so only absence of faults is demanded
        c.Probe("invalid_utf8_text");
        (void)Reference::ExtractAll(a.text); (void)ManagedText{ a.text }.Referals();
        if (k == "Resolve") { (void)mgr->Resolve(a.text); (void)mgr->OutputRefs(a.text); mgr->clear(); mgrLoaded = false; shadow.clear(); }
        return;
      }
      const auto orig = Reference::ExtractAll(a.text);
      if (!CheckExtraction(c, a, orig, k)) return;
      if (k == "ExtractOnly") {
        // set of mentioned entities
        const auto refs = ManagedText{ a.text }.Referals(); std::set<std::string> got(refs.begin(), refs.end()), want;
        for (auto& r : orig) if (r.IsEntity()) want.insert(std::string{ r.GetEntity() });
        c.Oracle("referals");
        if (got != want) { c.Fail(prop, "referals", k, "Referals() differs from the entity references of " + a.text); return; }
        if (a.clear) { std::set<std::string> w2; for (auto i : a.good) if (a.pieces[i].kind == GOOD_ENTITY) w2.insert(a.pieces[i].entity); if (w2 != got) { c.Fail("C17", "referals", k + "/clear", "Referals() differs from the well-formed entity references of " + a.text); return; } }
        return;
      }
      const std::string resolved = mgr->Resolve(a.text);
      if (!CheckResolved(c, a, orig, mgr->get(), resolved, k)) return;
      shadow = Cps(resolved); mgrLoaded = true;
      if (!CheckAligned(c, k)) return;
      // oracle 4: writing references back restores the original up to canonical spelling
      c.Oracle("output_refs");
      std::string expect; { const auto cps = Cps(a.text); size_t cur = 0; for (auto& r : orig) { expect += Join(cps, cur, static_cast<size_t>(r.position.start)); expect += r.ToString(); cur = static_cast<size_t>(r.position.finish); } expect += Join(cps, cur, cps.size()); }
      const std::string back = mgr->OutputRefs(resolved);
      if (back != expect) { c.Fail(prop, "output_refs", k, "OutputRefs gives '" + back + "' expected '" + expect + "'"); return; }
      if (a.clear) { std::string e2; for (auto& p : a.pieces) e2 += p.Canonical(); if (e2 != back) { c.Fail("C17", "output_refs", k + "/clear", "OutputRefs gives '" + back + "' expected '" + e2 + "'"); return; } }
    }
    else if (k == "Insert") {
      if (!mgrLoaded) return;
      auto ref = Reference::Parse(op.S(0)); if (!ref.IsValid()) { c.Probe("insert_invalid_ref_skipped"); return; }
      // a reference object that already carries a resolution (copied out of the manager, possibly resolved before the context changed)
      if (op.N(1) == 1 && !mgr->get().empty()) { ref = mgr->get()[static_cast<size_t>(op.N(2)) % mgr->get().size()]; c.Probe("insert_copy_of_resolved_reference"); }
      const int pos = static_cast<int>(op.N(0)) % (static_cast<int>(shadow.size()) + 1);
      const std::string before = RefsDump(mgr->get());
      bool touches = false; for (auto& r : mgr->get()) if (pos >= r.position.start && pos <= r.position.finish) touches = true;
      const Reference* res = mgr->Insert(ref, pos);
      if (!res) { c.Probe("insert_refused"); if (RefsDump(mgr->get()) != before) { c.Fail(prop, "refused_changes_nothing", k, "refused Insert modified the references"); return; } }
      else {
        if (touches) c.Probe("insert_at_reference_border");
        const auto ins = Cps(res->resolvedText);
        if (res->position.start != pos) { c.Fail(prop, "alignment", k + "/inserted-position", "inserted reference placed at " + std::to_string(res->position.start) + " not " + std::to_string(pos)); return; }
        shadow.insert(shadow.begin() + pos, ins.begin(), ins.end());
        if (res->IsEntity()) {   // what is shown for the inserted reference is its resolution in the CURRENT context
          c.Oracle("inserted_resolution");
          Reference again = Reference::Parse(res->ToString());
          if (again.IsValid() && again.IsEntity()) { again.ResolveEntity(ctx); if (again.resolvedText != res->resolvedText) { c.Fail(prop, "inserted_resolution", k + (op.N(1) == 1 ? "/copy" : ""), "inserted " + res->ToString() + " shows '" + res->resolvedText + "' but resolves to '" + again.resolvedText + "' in the current context"); return; } }
        }
        if (!CheckAligned(c, k)) return;
      }
    }
    else if (k == "EraseIn") {
      if (!mgrLoaded) return;
      const int len = static_cast<int>(shadow.size()); int a = static_cast<int>(op.N(0)) % (len + 1), b = static_cast<int>(op.N(1)) % (len + 1); if (a > b) std::swap(a, b);
      const auto beforeRefs = mgr->get(); const std::string before = RefsDump(beforeRefs);
      const auto res = mgr->EraseIn(StrRange{ a, b }, op.N(2) != 0);
      if (!res) { c.Probe("erase_refused"); if (RefsDump(mgr->get()) != before) { c.Fail(prop, "refused_changes_nothing", k, "refused EraseIn modified the references"); return; } }
      else {
        if (res->start < 0 || res->finish > len || res->start > res->finish || res->start > a || res->finish < b) { c.Fail(prop, "alignment", k + "/returned-range", "EraseIn returned [" + std::to_string(res->start) + "," + std::to_string(res->finish) + ") for request [" + std::to_string(a) + "," + std::to_string(b) + ")"); return; }
        if (*res != StrRange{ a, b }) c.Probe("erase_expanded");
        shadow.erase(shadow.begin() + res->start, shadow.begin() + res->finish);
        size_t gone = 0; for (auto& r : beforeRefs) if (r.position.start >= res->start && r.position.finish <= res->finish && !(r.position.start == r.position.finish)) ++gone;
        if (gone) c.Probe("erase_removed_reference");
        if (!CheckAligned(c, k)) return;
        // references wholly inside the erased range are gone, all others survive
        if (mgr->get().size() + gone != beforeRefs.size()) { c.Fail(prop, "alignment", k + "/survivors", "erasing [" + std::to_string(res->start) + "," + std::to_string(res->finish) + ") left " + std::to_string(mgr->get().size()) + " references of " + std::to_string(beforeRefs.size()) + ", " + std::to_string(gone) + " were inside the range; before: " + before); return; }
      }
    }
    else if (k == "FirstIn") {
      if (!mgrLoaded) return;
      const int len = static_cast<int>(shadow.size()); int a = static_cast<int>(op.N(0)) % (len + 1), b = static_cast<int>(op.N(1)) % (len + 1); if (a > b) std::swap(a, b);
      const auto* r = mgr->FirstIn(StrRange{ a, b });
      c.Oracle("first_in");
      if (r) { if (r->position.finish < a || r->position.start > b) { c.Fail(prop, "first_in", k, "FirstIn returned a reference outside the range"); return; } }
      else for (auto& x : mgr->get()) if (x.position.start < b && x.position.finish > a) { c.Fail(prop, "first_in", k + "/missed", "FirstIn([" + std::to_string(a) + "," + std::to_string(b) + ")) found nothing but " + x.ToString() + " at [" + std::to_string(x.position.start) + "," + std::to_string(x.position.finish) + ") overlaps"); return; }
    }
    else if (k == "OutputRefs" || k == "OutputRefsRange") {
      if (!mgrLoaded) return;
      const std::string text = ShadowStr();
      if (k == "OutputRefs") {
        c.Oracle("output_refs");
        std::string expect; size_t cur = 0; for (auto& r : mgr->get()) { expect += Join(shadow, cur, static_cast<size_t>(r.position.start)); expect += r.ToString(); cur = static_cast<size_t>(r.position.finish); } expect += Join(shadow, cur, shadow.size());
        const std::string got = mgr->OutputRefs(text);
        if (got != expect) { c.Fail(prop, "output_refs", k + "/history", "after edits OutputRefs gives '" + got + "' expected '" + expect + "'"); return; }
      } else {
        const int len = static_cast<int>(shadow.size()); if (len == 0) return;
        int a = static_cast<int>(op.N(0)) % len, b = static_cast<int>(op.N(1)) % (len + 1); if (a > b) std::swap(a, b);
        const std::string got = mgr->OutputRefs(text, StrRange{ a, b });
        // a selection that cuts a reference: the policy of partial coverage is not stated, only "never faults". A selection whose borders lie
        // outside every reference (or exactly on reference borders) must write back its part of the text: plain text as is, every reference inside it
        bool cuts = false, degenerate = a == b; for (auto& x : mgr->get()) { if ((x.position.start < a && a < x.position.finish) || (x.position.start < b && b < x.position.finish)) cuts = true; if (x.position.start >= x.position.finish) degenerate = true; }
        if (!cuts && !degenerate) {
          c.Oracle("output_refs_selection"); c.Probe("selection_on_reference_borders");
          std::string expect; size_t cur = static_cast<size_t>(a);
          for (auto& x : mgr->get()) { if (x.position.finish <= a) continue; if (x.position.start >= b) break; expect += Join(shadow, cur, static_cast<size_t>(x.position.start)); expect += x.ToString(); cur = static_cast<size_t>(x.position.finish); }
          expect += Join(shadow, cur, static_cast<size_t>(b));
          if (got != expect) { c.Fail(prop, "output_refs", k + "/selection", "OutputRefs over [" + std::to_string(a) + "," + std::to_string(b) + ") gives '" + got + "' expected '" + expect + "'"); return; }
        }
      }
    }
    else if (k == "MT_InitFrom" || k == "MT_SetRaw" || k == "LT_SetText") {
      const auto a = Analyse(op);
      if (!ValidUtf8(a.text)) { c.Probe("invalid_utf8_text"); ManagedText t2; t2.InitFrom(a.text, ctx); (void)t2.Referals(); LexicalTerm l2; l2.SetText(a.text, ctx); (void)l2.GetNominalForm(); return; }
      if (k == "MT_InitFrom") mt.InitFrom(a.text, ctx); else if (k == "MT_SetRaw") mt.SetRaw(a.text); else lt.SetText(a.text, ctx);
      const ManagedText& t = k == "LT_SetText" ? lt.Text() : mt;
      if (k != "LT_SetText") { mtRawExpect = a.text; mtKnown = a.clear; }
      c.Oracle("managed_text");
      if (t.Raw() != a.text) { c.Fail(prop, "managed_text", k + "/raw", "Raw() differs from the text given"); return; }
      if (k != "MT_SetRaw" && !skipResolving) {
        const std::string expect = RefsManager{ ctx }.Resolve(a.text);
        if (t.Str() != (expect.empty() ? a.text : expect)) { c.Fail(prop, "managed_text", k + "/str", "Str() '" + t.Str() + "' differs from resolution '" + expect + "'"); return; }
      }
      if (k == "MT_SetRaw" && t.Str() != a.text) { c.Fail(prop, "managed_text", k + "/str", "Str() after SetRaw is not the raw text"); return; }
    }
    else if (k == "MT_TranslateRaw" || k == "MT_TranslateRefs") {
      std::map<std::string, std::string> map; for (size_t i = 0; i + 1 < op.s.size(); i += 2) if (!HasSpecial(op.s[i]) && !HasSpecial(op.s[i + 1]) && !op.s[i + 1].empty() && std::isalpha(static_cast<unsigned char>(op.s[i + 1][0]))) map[op.s[i]] = op.s[i + 1];
      const ccl::StrTranslator tr = [&map](const std::string& s) -> std::optional<std::string> { auto it = map.find(s); if (it == map.end()) return std::nullopt; return it->second; };
      const std::string rawBefore = mt.Raw();
      const auto refsBefore = Reference::ExtractAll(rawBefore);
      if (k == "MT_TranslateRaw") mt.TranslateRaw(tr); else mt.TranslateRefs(tr, ctx);
      // expectation from the library's own extraction (all texts): only translated references change, to canonical spelling, rest byte-identical
      c.Oracle("translate");
      std::string expect; { const auto cps = Cps(rawBefore); size_t cur = 0; for (auto& r : refsBefore) { expect += Join(cps, cur, static_cast<size_t>(r.position.start)); const std::string orig = Join(cps, static_cast<size_t>(r.position.start), static_cast<size_t>(r.position.finish)); bool tr2 = false; if (r.IsEntity()) { auto it = map.find(std::string{ r.GetEntity() }); if (it != map.end() && it->second != r.GetEntity()) { tr2 = true; expect += "@{" + it->second + "|" + r.GetForm().ToString() + "}"; c.Probe("reference_translated"); } } if (!tr2) expect += orig; cur = static_cast<size_t>(r.position.finish); } expect += Join(cps, cur, cps.size()); }
      if (mt.Raw() != expect) { c.Fail(prop, "translate", k, "translated raw text '" + mt.Raw() + "' expected '" + expect + "' (from '" + rawBefore + "')"); return; }
      if (k == "MT_TranslateRefs" && !skipResolving) { const std::string e = RefsManager{ ctx }.Resolve(mt.Raw()); if (mt.Str() != (e.empty() ? mt.Raw() : e)) { c.Fail(prop, "managed_text", k + "/str", "Str() not refreshed after TranslateRefs"); return; } }
      mtRawExpect = expect;
    }
    else if (k == "MT_UpdateFrom") { mt.UpdateFrom(ctx); if (!skipResolving) { const std::string e = RefsManager{ ctx }.Resolve(mt.Raw()); if (mt.Str() != (e.empty() ? mt.Raw() : e)) { c.Fail(prop, "managed_text", k + "/str", "Str() '" + mt.Str() + "' is not the current resolution '" + e + "'"); return; } } }
    else if (k == "LT_SetForm") { const Morphology m{ std::string_view{ op.S(0) } }; lt.SetForm(m, op.S(1)); if (!lt.IsFormManual(m) || lt.GetForm(m) != op.S(1)) { c.Fail(prop, "lexical_term", k, "manual form not returned"); return; } }
    else if (k == "LT_GetForm") {
      const Morphology m{ std::string_view{ op.S(0) } };
      const std::string got = lt.GetForm(m);
      c.Oracle("lexical_term");
      if (!lt.IsFormManual(m) && !m.empty()) {
        const std::string e = proc->faultEmpty ? std::string{} : lt.Nominal() + "~" + m.ToString();
        if (got != e) { c.Fail(prop, "lexical_term", k, "GetForm gives '" + got + "' expected '" + e + "'"); return; }
      }
    }
    else if (k == "Ctx_SetTerm") { model[op.S(0)].nominal = op.S(1); RebuildTerm(op.S(0)); }
    else if (k == "Ctx_SetForm") { if (!model.count(op.S(0))) return; std::set<int> tags; for (auto& x : Split(op.S(1), ',')) { const int i = TagIndex(Trim(x)); if (i >= 0) tags.insert(i); } if (tags.empty()) return; model[op.S(0)].manual[CanonTags(tags)] = op.S(2); RebuildTerm(op.S(0)); c.Probe("manual_form_in_context"); }
    else if (k == "Ctx_Remove") { model.erase(op.S(0)); RebuildTerm(op.S(0)); }
    else if (k == "Proc_Fault") { proc->faultEmpty = op.N(0) != 0; if (proc->faultEmpty) c.Fault("text_processor_returns_empty"); for (auto& [e, t] : model) RebuildTerm(e); lt.UpdateFrom(ctx); }
    else if (k == "SkipResolving") { skipResolving = op.N(0) != 0; TextEnvironment::Instance().skipResolving = skipResolving; if (skipResolving) c.Fault("global_skip_resolving_set"); }
    if (c.Failed()) return;
    c.State(HashStr(ShadowStr() + "#" + (mgrLoaded ? RefsDump(mgr->get()) : std::string{}) + "#" + mt.Raw() + "#" + mt.Str() + "#" + lt.Text().Raw() + "#" + lt.Nominal()));
  }
  void End(Ctx& c) override { if (mgrLoaded) CheckAligned(c, "end"); }
  void Destroy() override {
    mgr.reset(); shadow.clear(); ctx.terms.clear(); model.clear(); mt = ManagedText{}; lt = LexicalTerm{};
    TextEnvironment::SetProcessor(std::make_unique<TextProcessor>()); proc = nullptr; TextEnvironment::Instance().skipResolving = false;
  }
  std::string CrashProperty(const std::string& focus, const Op&) const override { return focus == "C04" ? "C04" : "C17"; }
  std::vector<std::string> RealComponents() const override { return { "ccl::lang::Reference (ExtractAll/Parse/ToString/Resolve*)", "ccl::lang::RefsManager", "ccl::lang::ManagedText", "ccl::lang::LexicalTerm", "ccl::lang::Morphology", "ccl/Strings.hpp UTF-8 helpers" }; }
  std::vector<std::string> StubComponents() const override { return { "EntityTermContext (simulator-owned map of real LexicalTerm objects: missing entities, empty terms, manual forms)", "TextProcessor (Inflect = t~tags, InflectDependant = d^m; fault: returns empty)", "TextEnvironment::skipResolving global flag toggled as an environment event" }; }
  std::string Rule(const std::string& focus) const override {
    if (focus == "C04") return "one evaluation = one seeded run of the C17 history engine in which every text handed to Resolve/ExtractAll/ManagedText/LexicalTerm is a stored text hit by a storage fault (truncated inside a code point, flipped byte, stray lead/continuation byte); oracle = no crash/UB/escaped exception plus self-consistency of what is returned. distinct_nontrivial = distinct whole-run op-kind sequences.";
    return "one evaluation = one seeded run: texts are assembled from pieces (plain 1-4 byte code points, well-formed entity/collaboration references in every spelling, balanced ill-formed markers, stray '@', and a wild fault-only class); a RefsManager goes through Resolve followed by a history of Insert/EraseIn/FirstIn/OutputRefs with a shadow copy of the resolved text edited in parallel; ManagedText/LexicalTerm ops and context/processor/global-flag events are interleaved. Oracles: extraction = pieces an independent strict classifier calls well-formed; resolved text = original with references replaced, ranges delimit replacements; expected resolutions from the context model; alignment after every edit; refused edits change nothing; OutputRefs restores canonical spelling; Referals = entity references. distinct_nontrivial = distinct whole-run op-kind sequences.";
  }
  std::vector<std::string> Assumptions(const std::string&) const override {
    return { "content expectations (which references exist, their fields, their resolutions) are demanded only for texts all of whose pieces the strict classifier recognises; for wild texts only structural self-consistency and absence of faults are demanded", "OutputRefs over a sub-range applies a more-than-half-covered policy the statement does not mention: only absence of faults is checked there", "wording of error markers is not predicted, only that it is non-empty" };
  }
};

} // namespace

int main(int argc, char** argv) { RefSim e; return sim::Main(argc, argv, e); }
