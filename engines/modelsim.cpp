// modelsim — C11, C02, C16 and the model facets of C10 / C04: one RSModel edited by a simulated user (schema edits,
// data edits, Calculate / RecalculateAll in any order), checkpoint / crash / restart with storage faults on the saved
// data tables, iteration-limit and cache-limit knobs (hooks H3 / H2), seeded identifiers (hook H1).
#include "modelkit.hpp"

#include "ccl/rslang/Interpreter.h"
#include "ccl/rslang/RSGenerator.h"

using namespace sim;
using namespace mk;
using semantic::ParsingStatus;
using semantic::TextInterpretation;

namespace {

class ModelSim final : public Engine {
  std::unique_ptr<RSModel> m;
  std::string saved, prev; bool hasSaved{ false };
  std::string focus;
  SimTextProc* proc{ nullptr };
  size_t maxCst{ 12 };
  bool tainted{ false };   // a damaged saved model was accepted: garbage in, the run ends quietly after the load-time oracles

  bool Is(const char* p) const { return focus == p; }
  std::optional<EntityUID> Target(int64_t i) const { const auto l = ListOf(*m); if (l.empty()) return std::nullopt; return l[static_cast<size_t>(i) % l.size()]; }
  std::vector<std::string> AliasesOf() const { std::vector<std::string> v; for (const auto uid : m->List()) v.push_back(m->GetRS(uid).alias); return v; }
  std::vector<EntityUID> OfKind(std::function<bool(CstType)> pred) const { std::vector<EntityUID> v; for (const auto uid : m->List()) if (pred(m->GetRS(uid).type)) v.push_back(uid); return v; }

  std::string GenDef(Ctx& c, CstType type) {
    auto& r = c.gen; const auto env = EnvOf(*m);
    exprgen::Gen g(r, env, static_cast<int>(c.C("expr_depth", 2)));
    g.siblingReuse = r.Pct(static_cast<int>(c.C("p_reuse_locals", 5))); g.nearMiss = static_cast<int>(c.C("p_near_miss", 0)); g.scopeEscape = static_cast<int>(c.C("p_scope_escape", 0));   // sibling scopes binding one name (legal; nested reuse would be rejected)
    std::string def;
    switch (type) {
    case CstType::base: case CstType::constant: def = ""; break;
    case CstType::structured: def = g.StructureDef(); break;
    case CstType::axiom: case CstType::theorem: def = g.TopLevel(true); break;
    case CstType::term: def = g.TopLevel(false); if (g.siblingReuse && r.Pct(50)) def = "(" + def + "," + g.TopLevel(false) + ")"; break;   // a pair of independent expressions: their scopes are siblings
    case CstType::function: def = g.FunctionDef(false); break;
    default: def = g.FunctionDef(true); break;
    }
    // nested iteration over one *stored* lazy value (power set / product kept in the model between evaluations): the shared
    // element cache of that value is then used by two live iterators at once
    if ((type == CstType::term || type == CstType::axiom || type == CstType::theorem) && r.Pct(static_cast<int>(c.C("p_nested_lazy", 10)))) {
      std::vector<std::string> lazy;
      for (const auto uid : m->List()) { const auto& d = m->GetRS(uid).definition; if (m->GetRS(uid).type == CstType::term && m->GetParse(uid).status == ParsingStatus::VERIFIED && (d.rfind("ℬ(", 0) == 0 || d.find("×") != std::string::npos) && d.find("D{") == std::string::npos) lazy.push_back(m->GetRS(uid).alias); }
      if (!lazy.empty()) {
        const std::string g1 = r.Pick(lazy);
        switch (r.Below(3) + (type == CstType::term ? 0 : 3)) {
        case 0: def = "D{ξ1∈" + g1 + "|∀σ2∈" + g1 + " (σ2=σ2)}"; break;
        case 1: def = "D{ξ1∈" + g1 + "|∃σ2∈" + g1 + " (σ2=ξ1)}"; break;
        case 2: def = "I{ξ1|ξ1:∈" + g1 + ";σ2:∈" + g1 + ";σ2=ξ1}"; break;
        case 3: def = "∀ξ1∈" + g1 + " ∃σ2∈" + g1 + " (σ2=ξ1)"; break;
        case 4: def = "∀ξ1,σ2∈" + g1 + " (ξ1=σ2⇒σ2=ξ1)"; break;
        default: def = "∃ξ1∈" + g1 + " ∀σ2∈" + g1 + " (σ2≠ξ1∨1=1)"; break;
        }
        return def;
      }
    }
    if ((type == CstType::axiom || type == CstType::theorem) && r.Pct(static_cast<int>(c.C("p_scope_escape", 0)) / 2)) return exprgen::ScopeEscapeTemplate(r, env);
    if (r.Pct(static_cast<int>(c.C("p_reuse_locals", 5)))) def = exprgen::ReuseLocalNames(def);   // sibling scopes binding one name (legal; nested reuse is rejected by the checker)
    if (r.Pct(static_cast<int>(c.C("p_mutant", 8)))) def = exprgen::Mutate(r, def, env);
    return def;
  }

  // ---------------------------------------------------------------- oracles
  // C11: every visible calculated value equals recalculation from scratch on a rebuilt copy
  void CheckFresh(Ctx& c, const std::string& trig) {
    c.Oracle("values_equal_recalculation"); c.nontrivial = true;
    OracleScope os(c);
    sim::TimeoutTag() = "evaluation";
    RSModel fresh; RebuildModel(*m, fresh); fresh.Calculations().RecalculateAll();
    for (const auto uid : m->List()) {
      if (c.Failed()) break;
      const auto& rs = m->GetRS(uid);
      if (rs.type == CstType::structured) {
        // structure data only holds still-valid elements and fits the current typification
        if (const auto v = m->Values().SDataFor(uid); v.has_value()) {
          const auto* ty = m->GetParse(uid).Typification();
          if (ty != nullptr && !DeepCompatible(*v, *ty, m.get())) c.Fail("C11", "structure_data_invalid", trig, rs.alias + " holds data " + ValueStr(*m, uid) + " that does not fit typification " + ty->ToString() + " over the current base sets");
        }
        continue;
      }
      if (!semantic::IsCalculable(rs.type) || !m->Calculations().WasCalculated(uid)) continue;
      const auto a = m->Values().SDataFor(uid); const auto b = fresh.Values().SDataFor(uid);
      const auto sa = m->Values().StatementFor(uid); const auto sb = fresh.Values().StatementFor(uid);
      if (!a.has_value() && !sa.has_value()) continue;   // reports no value: nothing demanded
      c.Probe("visible_calculated_value");
      const std::string shown = ValueStr(*m, uid), now = ValueStr(fresh, uid);
      bool same = a.has_value() ? (b.has_value() && *a == *b) : (sb.has_value() && *sa == *sb);
      if (same && a.has_value() && a->IsCollection() && a->B().Cardinality() <= 3000 && a->ToString() != b->ToString()) same = false;
      if (!same) c.Fail("C11", "stale_value", trig, rs.alias + " := " + rs.definition + " shows " + shown + ", recalculation from current data gives " + now);
    }
    sim::TimeoutTag() = "";
  }
  // C02: shape of a produced value vs the reported type
  void CheckShape(Ctx& c, EntityUID uid, const std::string& trig) {
    const auto& p = m->GetParse(uid); if (!p.exprType.has_value()) return;
    c.Oracle("value_has_reported_type");
    const auto v = m->Values().SDataFor(uid); const auto s = m->Values().StatementFor(uid);
    const auto* ty = p.Typification();
    const std::string name = m->GetRS(uid).alias + " := " + m->GetRS(uid).definition;
    if (ty == nullptr) { if (v.has_value() && !s.has_value()) c.Fail("C02", "value_shape", trig + "/logic", name + " has type LOGIC but produced a set value " + ValueStr(*m, uid)); }
    else if (s.has_value() && !v.has_value()) c.Fail("C02", "value_shape", trig + "/typed", name + " has type " + ty->ToString() + " but produced a truth value");
    else if (v.has_value() && !DeepCompatible(*v, *ty)) c.Fail("C02", "value_shape", trig + "/structure", name + " has type " + ty->ToString() + " but produced " + ValueStr(*m, uid));
  }

public:
  const char* Name() const override { return "modelsim"; }
  std::vector<std::string> Properties() const override { return { "C11", "C02", "C16", "C10", "C04" }; }
  uint64_t DefaultRuns(const std::string& f, bool thorough) const override { return thorough ? 250000 : (f == "C02" ? 20000 : 12000); }
  unsigned WatchdogSecs() const override { return 4; }
  Cfg GenCfg(Rng& r, const std::string& f, bool thorough) override {
    Cfg c; c["steps"] = thorough ? r.Range(8, 70) : r.Range(8, 40); c["max_cst"] = r.Range(5, 12);
    c["uid_policy"] = r.Range(0, 4); c["uid_range"] = r.Range(8, 24);
    c["expr_depth"] = r.Range(1, 2) + (r.Pct(25) ? 1 : 0);
    c["p_mutant"] = r.Pct(50) ? 0 : r.Range(3, 20);
    static const std::vector<int> lim{ 1, 2, 3, 5, 100, 0 }; c["cache_limit"] = r.Pick(lim);
    static const std::vector<int> its{ 20, 200, 2000, 2000 }; c["max_iterations"] = r.Pick(its);
    c["base_size"] = r.Range(0, 4);
    c["observe"] = r.Pct(65) ? 1 : r.Range(2, 4);
    c["w_schema"] = r.Range(2, 6); c["w_data"] = r.Range(2, 8); c["w_calc"] = r.Range(2, 8); c["w_persist"] = r.Range(0, 3); c["w_eval"] = r.Range(0, 3);
    c["p_nested_lazy"] = r.Range(0, 12); c["p_reuse_locals"] = f == "C02" ? r.Range(20, 60) : r.Range(0, 10);
    c["p_near_miss"] = r.Pct(60) ? 0 : r.Range(3, 12); c["p_scope_escape"] = r.Pct(70) ? 0 : r.Range(5, 25);
    if (f == "C02") { c["p_near_miss"] = r.Pct(35) ? 0 : r.Range(5, 30); c["p_scope_escape"] = r.Pct(50) ? 0 : r.Range(5, 30); c["w_calc"] = r.Range(5, 10); c["w_eval"] = r.Range(3, 8); c["p_mutant"] = r.Range(0, 30); c["p_nested_lazy"] = r.Range(10, 35); }
    if (f == "C16" || f == "C10") { c["w_persist"] = r.Range(3, 8); c["w_data"] = r.Range(4, 10); }
    if (f == "C04") { c["w_persist"] = r.Range(4, 9); c["p_mutant"] = r.Range(10, 40); }
    return c;
  }
  void Begin(Ctx& c) override {
    focus = c.focus; proc = InstallTextProc(); proc->limit = 24;
    m = std::make_unique<RSModel>(); hasSaved = false; saved.clear(); prev.clear(); tainted = false;
    maxCst = static_cast<size_t>(c.C("max_cst", 10));
    c.Count("knob.cache_limit=" + std::to_string(c.C("cache_limit"))); c.Count("knob.max_iterations=" + std::to_string(c.C("max_iterations")));
  }
  void Destroy() override { m.reset(); RemoveTextProc(); proc = nullptr; sim::TimeoutTag() = ""; }
  std::string CrashProperty(const std::string& f, const Op& op) const override {
    if (op.kind == "Calculate" || op.kind == "RecalculateAll" || op.kind == "EvalCst" || op.kind == "EvalExpr") return "C02";
    if (f == "C16" && (op.kind == "Checkpoint" || op.kind == "CrashRestart" || op.kind == "PackProbe")) return "C16";
    return "C04";
  }
  std::vector<std::string> RealComponents() const override { return { "ccl::semantic::RSModel / rsValuesFacet / rsCalculationFacet / InterpretationStorage / RSCore", "rslang Interpreter / ASTInterpreter / TypeAuditor / StructuredData / SDCompact", "JSON (de)serialisation of models" }; }
  std::vector<std::string> StubComponents() const override { return { "identifier entropy (hook H1)", "lazy-set cache limit (hook H2) and iteration limit (hook H3) chosen per run", "document store with storage faults on saved data tables", "text processor stub" }; }
  std::string Rule(const std::string& f) const override {
    std::string s = "one evaluation = one seeded run: 8-40 ops on one RSModel (Emplace, InsertCopy(record), InsertCopy from another schema single / bulk / bulk records, MoveBefore, ResetAliases, term / text definition / convention / term form edits, SetExpressionFor, SetAliasFor +/- substitution, Erase; AddBasicElement, SetBasicText with new size / same size different keys / same content, SetStructureData compatible / incompatible, ResetDataFor; Calculate in any order, RecalculateAll; evaluation of constituents and free expressions through an Interpreter over the model's contexts; Checkpoint, CrashRestart with optional damage of a saved data table), cache limit, iteration limit and identifier policy drawn per run. ";
    if (f == "C11") s += "Oracle after every observed step: the model is rebuilt from its records, base interpretations and structure data, recalculated from scratch, and every constituent that reports a calculated value must report the same value; structure data must fit the current typification and base sets.";
    else if (f == "C02") s += "Oracle at every evaluation of a VERIFIED constituent or accepted expression over deep-compatible data: no crash / UB / escaped exception, failure implies a critical error that is not 'unknown evaluation error', a produced value is a truth value iff the type is LOGIC and otherwise has the reported structure (harness's own recursive check).";
    else if (f == "C16") s += "Oracle at every checkpoint: Unpack(Pack(v,t),t)==v for every stored value; exhaustive single-cell / single-row damage of each packed table of <= 40 cells must unpack to nothing or to a value of the right shape without faulting; reloaded model holds equal data.";
    else if (f == "C10") s += "Oracle at every checkpoint: dump-load-dump of the model is a fixed point; identifiers, texts, base interpretations, structure data, calculated flags and values equal after reload; restart gives back what was saved.";
    else s += "Oracle (C04, narrow): loading saved models whose data tables or items were damaged returns normally or throws nlohmann::json::exception; no crash / UB.";
    return s + " distinct_nontrivial = distinct whole-run op-kind sequences among runs that evaluated the property's oracle.";
  }
  std::vector<std::string> Assumptions(const std::string& f) const override {
    std::vector<std::string> a{ "evaluations stopped by the CPU watchdog are discarded as resource exhaustion of the simulation (the library has no time limit)", "base sets have <= 5 elements so that lazy power sets and products stay enumerable by the harness" };
    if (f == "C11") a.push_back("nothing is demanded of constituents that report no value");
    if (f == "C16") a.push_back("damaged tables are neighbours of genuinely saved ones, not arbitrary tables");
    return a;
  }

  bool GenOp(Ctx& c, Op& op) override;
  void Exec(Ctx& c, const Op& op) override;
  void End(Ctx& c) override { if (Is("C11") && !tainted) CheckFresh(c, "end"); }

private:
  void ExecPersist(Ctx& c, const Op& op);
  bool CheckModelRoundTrip(Ctx& c, const std::string& trig, std::string& J);
  void CheckPacking(Ctx& c, const std::string& trig);
  void PackProbe(Ctx& c, uint64_t seed);
};

#include "modelsim_ops.inc"

} // namespace

int main(int argc, char** argv) { ModelSim e; return sim::Main(argc, argv, e); }
