// graphsim — C14: CGraph / UpdatableGraph against a reference digraph model, every query after every step.
#include "simkit.hpp"

#include "ccl/graph/CGraph.h"

#include <memory>

using namespace sim;
using ccl::EntityUID;
using ccl::graph::CGraph;
using ccl::graph::UpdatableGraph;

namespace {

struct Model {
  std::set<int> items;
  std::set<std::pair<int, int>> edges;   // (source, dest)
  bool broken{ false };
  void Erase(int u) {
    items.erase(u);
    for (auto it = edges.begin(); it != edges.end();) { if (it->first == u || it->second == u) it = edges.erase(it); else ++it; }
  }
  void SetInputs(int u, const std::set<int>& in) {
    items.insert(u);
    for (auto it = edges.begin(); it != edges.end();) { if (it->second == u) it = edges.erase(it); else ++it; }
    for (int s : in) { items.insert(s); edges.insert({ s, u }); }
  }
};

struct Slot {
  std::unique_ptr<UpdatableGraph> g;
  Model m;
  CGraph::UnorderedItems pendingUpdate;   // what the injected updater will answer
};

class GraphSim final : public Engine {
  std::vector<Slot> slots;
  int U{ 8 };
  int spread{ 0 };

  EntityUID Uid(int i) const { return spread == 0 ? static_cast<EntityUID>(i) : static_cast<EntityUID>(static_cast<uint32_t>(i) * 1000003u + 17u); }
  int Idx(EntityUID u) const { for (int i = 0; i < 16; ++i) if (Uid(i) == u) return i; return -1; }

  void MakeSlot(Slot& s) {
    Slot* self = &s;
    s.g = std::make_unique<UpdatableGraph>([self](EntityUID) { return self->pendingUpdate; });
    s.m = Model{};
  }
  CGraph::UnorderedItems SetFromMask(int64_t mask) const {
    CGraph::UnorderedItems r;
    for (int i = 0; i < 16; ++i) if (mask & (1 << i)) r.insert(Uid(i));
    return r;
  }
  static std::set<int> ModelSetFromMask(int64_t mask) { std::set<int> r; for (int i = 0; i < 16; ++i) if (mask & (1 << i)) r.insert(i); return r; }

public:
  const char* Name() const override { return "graphsim"; }
  std::vector<std::string> Properties() const override { return { "C14" }; }
  uint64_t DefaultRuns(const std::string&, bool thorough) const override { return thorough ? 600000 : 20000; }
  Cfg GenCfg(Rng& r, const std::string&, bool) override {
    Cfg c;
    c["steps"] = r.Range(5, 60);
    c["universe"] = r.Range(3, 10);
    c["uid_spread"] = r.Pct(50);
    c["w_add"] = r.Range(0, 4); c["w_erase"] = r.Range(0, 4); c["w_conn"] = r.Range(1, 8); c["w_inputs"] = r.Range(0, 5);
    c["w_clear"] = r.Pct(30); c["w_copy"] = r.Range(0, 2); c["w_update"] = r.Range(0, 3); c["w_valid"] = r.Range(0, 1);
    c["p_self"] = r.Range(0, 20);
    c["observe"] = r.Pct(70) ? 1 : r.Range(2, 5);   // oracle every k-th step (and always at the end)
    return c;
  }
  void Begin(Ctx& c) override {
    U = static_cast<int>(c.C("universe", 8)); spread = static_cast<int>(c.C("uid_spread", 0));
    slots.clear(); slots.resize(2);
    for (auto& s : slots) MakeSlot(s);
    c.Count("knob.universe=" + std::to_string(U));
  }
  bool GenOp(Ctx& c, Op& op) override {
    auto& r = c.gen;
    static const std::vector<std::string> kinds{ "AddItem", "EraseItem", "AddConnection", "SetItemInputs", "Clear", "Copy", "Move", "UpdateFor", "Invalidate", "SetValid" };
    std::vector<int> w{ (int)c.C("w_add"), (int)c.C("w_erase"), (int)c.C("w_conn"), (int)c.C("w_inputs"), (int)c.C("w_clear"), (int)c.C("w_copy"), (int)c.C("w_copy"), (int)c.C("w_update"), (int)c.C("w_valid"), (int)c.C("w_valid") * 2 };
    op.kind = kinds[r.Weighted(w)];
    const int g = r.Pct(75) ? 0 : 1;
    op.n = { g };
    auto item = [&] { return static_cast<int64_t>(r.Below(static_cast<uint64_t>(U))); };
    auto mask = [&] { int64_t m = 0; const int k = r.Range(0, 3); for (int i = 0; i < k; ++i) m |= int64_t{ 1 } << item(); return m; };
    if (op.kind == "AddItem" || op.kind == "EraseItem") op.n.push_back(item());
    else if (op.kind == "AddConnection") { auto a = item(); auto b = r.Pct((int)c.C("p_self")) ? a : item(); op.n.push_back(a); op.n.push_back(b); }
    else if (op.kind == "SetItemInputs" || op.kind == "UpdateFor") { op.n.push_back(item()); op.n.push_back(mask()); }
    return true;
  }

  // ---- reference computations
  static std::set<int> Closure(const Model& m, const std::set<int>& start, bool forward) {
    std::set<int> seen; std::vector<int> todo;
    for (int s : start) if (m.items.count(s)) { seen.insert(s); todo.push_back(s); }
    while (!todo.empty()) {
      int x = todo.back(); todo.pop_back();
      for (auto& e : m.edges) {
        const int from = forward ? e.first : e.second, to = forward ? e.second : e.first;
        if (from == x && !seen.count(to)) { seen.insert(to); todo.push_back(to); }
      }
    }
    return seen;
  }
  // reach[a][b]: there is a path of length >= 1 from a to b
  static void ReachMatrix(const Model& m, bool reach[16][16]) {
    for (int a = 0; a < 16; ++a) for (int b = 0; b < 16; ++b) reach[a][b] = false;
    for (auto& e : m.edges) reach[e.first][e.second] = true;
    for (int k = 0; k < 16; ++k) for (int a = 0; a < 16; ++a) if (reach[a][k]) for (int b = 0; b < 16; ++b) if (reach[k][b]) reach[a][b] = true;
  }

  std::string SetStr(const CGraph::UnorderedItems& s) const { std::set<int> t; for (auto u : s) t.insert(Idx(u)); std::string r = "{"; for (int i : t) r += std::to_string(i) + " "; return r + "}"; }
  static std::string SetStr(const std::set<int>& s) { std::string r = "{"; for (int i : s) r += std::to_string(i) + " "; return r + "}"; }
  bool SameSet(const CGraph::UnorderedItems& a, const std::set<int>& b) const {
    if (a.size() != b.size()) return false;
    for (auto u : a) { int i = Idx(u); if (i < 0 || !b.count(i)) return false; }
    return true;
  }
  std::string ModelStr(const Model& m) const {
    std::string r = "items" + SetStr(m.items) + " edges[";
    for (auto& e : m.edges) r += std::to_string(e.first) + ">" + std::to_string(e.second) + " ";
    return r + "]";
  }

  void Check(Ctx& c, const Slot& s, const std::string& trig) {
    const CGraph& g = *s.g; const Model& m = s.m;
    auto fail = [&](const char* oracle, const std::string& extra, const std::string& detail) { c.Fail("C14", oracle, trig + extra, detail + " | model " + ModelStr(m)); };
    c.Oracle("graph_queries");
    for (int i = 0; i < U + 1; ++i) if (g.Contains(Uid(i)) != (m.items.count(i) > 0)) return fail("contains", "", "Contains(" + std::to_string(i) + ")");
    if (g.ItemsCount() != static_cast<int>(m.items.size())) return fail("items_count", "", "ItemsCount=" + std::to_string(g.ItemsCount()));
    if (g.ConnectionsCount() != static_cast<int>(m.edges.size())) return fail("connections_count", "", "ConnectionsCount=" + std::to_string(g.ConnectionsCount()));
    bool reach[16][16]; ReachMatrix(m, reach);
    for (int a = 0; a < U + 1; ++a) {
      for (int b = 0; b < U + 1; ++b) {
        if (g.ConnectionExists(Uid(a), Uid(b)) != (m.edges.count({ a, b }) > 0)) return fail("connection_exists", "", "ConnectionExists(" + std::to_string(a) + "," + std::to_string(b) + ")");
        const bool live = m.items.count(a) && m.items.count(b);
        const bool got = g.IsReachableFrom(Uid(b), Uid(a));   // (dest, source)
        if (a != b) { if (got != (live && reach[a][b])) return fail("reachable", "", "IsReachableFrom(dest=" + std::to_string(b) + ",src=" + std::to_string(a) + ")=" + std::to_string(got)); }
        else {
          // lenient zone: only the two unambiguous readings are demanded
          if (m.edges.count({ a, a }) && !got) return fail("reachable", "/self-loop", "IsReachableFrom(x,x) false with self-loop " + std::to_string(a));
          if (!reach[a][a] && got) return fail("reachable", "/no-cycle", "IsReachableFrom(x,x) true but x on no cycle " + std::to_string(a));
        }
      }
      std::set<int> in; for (auto& e : m.edges) if (e.second == a) in.insert(e.first);
      if (!m.items.count(a)) in.clear();
      if (!SameSet(g.InputsFor(Uid(a)), in)) return fail("inputs_for", "", "InputsFor(" + std::to_string(a) + ")=" + SetStr(g.InputsFor(Uid(a))));
      const auto eo = g.ExpandOutputs({ Uid(a) }); const auto ei = g.ExpandInputs({ Uid(a) });
      if (!SameSet(eo, Closure(m, { a }, true))) return fail("expand_outputs", "", "ExpandOutputs({" + std::to_string(a) + "})=" + SetStr(eo));
      if (!SameSet(ei, Closure(m, { a }, false))) return fail("expand_inputs", "", "ExpandInputs({" + std::to_string(a) + "})=" + SetStr(ei));
    }
    // subsets (derived deterministically from the step, not from a PRNG, so observation never shifts choices)
    for (int k = 0; k < 3; ++k) {
      const int64_t mask = static_cast<int64_t>(Mix(static_cast<uint64_t>(c.step) * 7 + static_cast<uint64_t>(k), c.runSeed) & ((1u << (U + 1)) - 1));
      const auto in = SetFromMask(mask); const auto min = ModelSetFromMask(mask);
      if (!SameSet(g.ExpandOutputs(in), Closure(m, min, true))) return fail("expand_outputs", "/subset", "ExpandOutputs(" + SetStr(min) + ")=" + SetStr(g.ExpandOutputs(in)));
      if (!SameSet(g.ExpandInputs(in), Closure(m, min, false))) return fail("expand_inputs", "/subset", "ExpandInputs(" + SetStr(min) + ")=" + SetStr(g.ExpandInputs(in)));
      // Sort(subset) is a subsequence of TopologicalOrder restricted to live members of the subset
      const auto order = g.TopologicalOrder(); const auto sorted = g.Sort(in);
      std::vector<EntityUID> expect; for (auto u : order) if (in.count(u)) expect.push_back(u);
      if (sorted != expect) return fail("sort", "", "Sort(" + SetStr(min) + ") is not the restriction of TopologicalOrder");
    }
    bool cyclic = false; for (int a = 0; a < 16; ++a) if (reach[a][a]) cyclic = true;
    if (cyclic) c.Probe("cyclic_graph");
    if (g.HasLoop() != cyclic) return fail("has_loop", "", std::string("HasLoop=") + (g.HasLoop() ? "true" : "false"));
    // loop groups = SCCs containing a cycle
    std::set<std::set<int>> expectGroups;
    for (int a = 0; a < 16; ++a) if (reach[a][a]) { std::set<int> scc; for (int b = 0; b < 16; ++b) if (b == a || (reach[a][b] && reach[b][a])) scc.insert(b); expectGroups.insert(scc); }
    std::set<std::set<int>> gotGroups; size_t gotCount = 0;
    for (auto& grp : g.GetAllLoopsItems()) { std::set<int> t; for (auto u : grp) t.insert(Idx(u)); gotGroups.insert(t); ++gotCount; }
    if (gotGroups != expectGroups || gotCount != expectGroups.size()) {
      std::string gs, es; for (auto& x : gotGroups) gs += SetStr(x); for (auto& x : expectGroups) es += SetStr(x);
      // discriminator: does a reported group contain an item on no cycle / merge two SCCs / miss a group
      std::string disc = "/other";
      for (auto& x : gotGroups) for (int i : x) if (i >= 0 && !reach[i][i]) disc = "/non-cycle-member";
      if (disc == "/other" && gotGroups.size() < expectGroups.size()) disc = "/missing-or-merged";
      return fail("loop_groups", disc, "GetAllLoopsItems=" + gs + " expected " + es);
    }
    // topological orders
    const auto topo = g.TopologicalOrder(); const auto inv = g.InverseTopologicalOrder();
    for (const auto* ord : { &topo, &inv }) {
      std::set<int> seen;
      for (auto u : *ord) { int i = Idx(u); if (i < 0 || !m.items.count(i) || !seen.insert(i).second) return fail("topological_order", "/membership", "order lists a dead or duplicate item"); }
      if (seen.size() != m.items.size()) return fail("topological_order", "/membership", "order misses a live item");
    }
    if (!cyclic) {
      std::map<int, size_t> posT, posI;
      for (size_t i = 0; i < topo.size(); ++i) posT[Idx(topo[i])] = i;
      for (size_t i = 0; i < inv.size(); ++i) posI[Idx(inv[i])] = i;
      for (auto& e : m.edges) {
        if (!(posT[e.first] < posT[e.second])) return fail("topological_order", "/edge-direction", "edge " + std::to_string(e.first) + ">" + std::to_string(e.second) + " goes backward in TopologicalOrder");
        if (!(posI[e.first] > posI[e.second])) return fail("topological_order", "/edge-direction", "edge goes forward in InverseTopologicalOrder");
      }
    }
    if (s.g->IsBroken() != m.broken) return fail("broken_flag", "", "IsBroken mismatch");
  }

  void Exec(Ctx& c, const Op& op) override {
    const size_t gi = static_cast<size_t>(op.N(0)) % slots.size();
    Slot& s = slots[gi]; Slot& other = slots[1 - gi];
    const int u = static_cast<int>(op.N(1) % std::max(1, U)), v = static_cast<int>(op.N(2) % std::max(1, U));
    const int64_t mask = op.N(2) & ((1 << U) - 1);
    c.nontrivial = true;
    if (op.kind == "AddItem") { s.g->AddItem(Uid(u)); s.m.items.insert(u); }
    else if (op.kind == "EraseItem") { if (!s.m.items.count(u)) c.Probe("erase_absent"); else if (Closure(s.m, { u }, true).size() > 1) c.Probe("erase_connected"); s.g->EraseItem(Uid(u)); s.m.Erase(u); }
    else if (op.kind == "AddConnection") {
      if (u == v) c.Probe("self_loop"); if (s.m.edges.count({ u, v })) c.Probe("duplicate_edge");
      s.g->AddConnection(Uid(u), Uid(v)); s.m.items.insert(u); s.m.items.insert(v); s.m.edges.insert({ u, v });
    }
    else if (op.kind == "SetItemInputs") { if (mask & (1 << u)) c.Probe("inputs_include_self"); s.g->SetItemInputs(Uid(u), SetFromMask(mask)); s.m.SetInputs(u, ModelSetFromMask(mask)); }
    else if (op.kind == "Clear") { s.g->Clear(); s.m.items.clear(); s.m.edges.clear(); }
    else if (op.kind == "Copy") { static_cast<CGraph&>(*other.g) = static_cast<const CGraph&>(*s.g); other.m.items = s.m.items; other.m.edges = s.m.edges; c.Probe("copy"); }
    else if (op.kind == "Move") {
      static_cast<CGraph&>(*other.g) = std::move(static_cast<CGraph&>(*s.g)); other.m.items = s.m.items; other.m.edges = s.m.edges;
      static_cast<CGraph&>(*s.g) = CGraph{}; s.m.items.clear(); s.m.edges.clear(); c.Probe("move");
    }
    else if (op.kind == "UpdateFor") {
      s.pendingUpdate = SetFromMask(mask);
      if (s.m.broken) c.Fault("update_while_invalid"); else if (!s.m.items.count(u)) c.Fault("updater_names_unknown_item");
      s.g->UpdateFor(Uid(u));
      if (!s.m.broken) s.m.SetInputs(u, ModelSetFromMask(mask));
    }
    else if (op.kind == "Invalidate") { s.g->Invalidate(); s.m.broken = true; }
    else if (op.kind == "SetValid") { s.g->SetValid(); s.m.broken = false; }
    const int observe = static_cast<int>(c.C("observe", 1));
    if (observe <= 1 || c.step % observe == 0) { Check(c, s, op.kind); if (!c.Failed() && (op.kind == "Copy" || op.kind == "Move")) Check(c, other, op.kind); }
    c.State(HashStr(ModelStr(slots[0].m)) ^ Fin(HashStr(ModelStr(slots[1].m))));
  }
  void End(Ctx& c) override { for (auto& s : slots) { if (c.Failed()) break; Check(c, s, "end"); } }
  void Destroy() override { slots.clear(); }
  std::string CrashProperty(const std::string&, const Op&) const override { return "C14"; }
  std::vector<std::string> RealComponents() const override { return { "ccl::graph::CGraph", "ccl::graph::UpdatableGraph" }; }
  std::vector<std::string> StubComponents() const override { return { "updater callback of UpdatableGraph (simulator-owned; may name unknown, erased or the same item)" }; }
  std::string Rule(const std::string&) const override {
    return "one evaluation = one seeded run: a swarm-configured history (5-60 ops) of AddItem/EraseItem/AddConnection/SetItemInputs/Clear/Copy/Move/UpdateFor/Invalidate/SetValid on two graph slots over a 3-10 item universe; after each step every public query is compared with a reference digraph (sets + Floyd-Warshall reachability + SCCs). distinct_nontrivial = number of distinct whole-run op-kind sequences among runs that executed >= 1 op and evaluated the query oracle.";
  }
  std::vector<std::string> Assumptions(const std::string&) const override {
    return { "IsReachableFrom(x,x) is compared only where both readings agree (self-loop => true; x on no cycle => false)", "moved-from graphs are re-assigned before further use" };
  }
};

} // namespace

int main(int argc, char** argv) { GraphSim e; return sim::Main(argc, argv, e); }
