// osssim — C19 (and the OSS facet of C12): an operation schema (OSS), a simulated source manager owning documents,
// three kinds of clients (OSS operator, one editor per source, the environment) interleaved by the scheduler, with
// source-manager faults, delayed / duplicated / lost announcements and crash / restart of the whole world.
#include "schemakit.hpp"

#include "ccl/oss/OSSchema.h"
#include "ccl/env/cclEnvironment.h"
#include "ccl/ops/RSOperations.h"

using namespace sim;
using namespace sk;
namespace oss = ccl::oss;
namespace ops = ccl::ops;
using oss::PictID;
using semantic::ParsingStatus;

namespace {

struct SimSource final : src::Source, types::Observer {
  RSForm schema{};
  std::u8string fullName{};
  bool open{ true }, dirty{ false }, exists{ true };
  bool unsavable{ false }, unwritable{ false };
  std::string savedBytes;   // what the store holds
  change::Hash announcedHash{ 0 }; uint64_t announcedAt{ 0 };   // formal content at the last announced change, and when (simulator event counter)
  SimSource() { schema.AddObserver(*this); }
  ~SimSource() override { schema.RemoveObserver(*this); }
  SimSource(const SimSource&) = delete; SimSource& operator=(const SimSource&) = delete;
  void OnObserve(const types::Message&) override { dirty = true; }
  change::Hash CoreHash() const override { return schema.CoreHash(); }
  change::Hash FullHash() const override { return schema.FullHash(); }
  src::SrcType Type() const noexcept override { return src::SrcType::rsDoc; }
  bool WriteData(meta::UniqueCPPtr<src::DataStream> data) override {
    if (unwritable) return false;
    const auto* rs = dynamic_cast<const RSForm*>(data.get()); if (rs == nullptr) return false;
    schema = *rs; return true;
  }
  const src::DataStream* ReadData() const override { return &schema; }
  src::DataStream* AccessData() override { return &schema; }
  void Persist() { JSON j = schema; savedBytes = j.dump(-1, ' ', false, JSON::error_handler_t::replace); dirty = false; }
};

struct SimSourceManager final : SourceManager {
  std::vector<std::unique_ptr<SimSource>> sources;
  bool rejectDomain{ false }, createFails{ false }, openFails{ false }, renameRefused{ false }, dupNotify{ false };
  bool crashing{ false };   // the process is "dying": nothing is saved or announced any more
  int localCounter{ 0 };
  uint64_t tick{ 0 };   // simulator event counter (one per executed op)
  void Announce(SimSource& s) { s.announcedHash = s.CoreHash(); s.announcedAt = tick; OnSourceChange(s); }
  std::map<std::string, uint64_t>* faultCounter{ nullptr };
  void Fired(const char* k) { if (faultCounter) (*faultCounter)[k]++; }

  SimSource* ByName(const std::u8string& n) { for (auto& s : sources) if (s->exists && s->fullName == n) return s.get(); return nullptr; }
  bool TestDomain(const src::Descriptor& global, const std::u8string& domain) const override { return !rejectDomain && (domain.empty() || global.name.find(domain) == 0); }
  src::Descriptor Convert2Local(const src::Descriptor& global, const std::u8string& domain) const override { auto l = global; if (!domain.empty() && l.name.find(domain) == 0) l.name.erase(0, domain.size()); return l; }
  src::Descriptor Convert2Global(const src::Descriptor& local, const std::u8string& domain) const override { return src::Descriptor{ local.type, domain + local.name }; }
  src::Descriptor CreateLocalDesc(src::SrcType type, std::u8string localName) const override {
    if (type != src::SrcType::rsDoc) return SourceManager::CreateLocalDesc(type, localName);
    if (localName.empty()) localName = u8"local" + ccl::to_u8string(++const_cast<SimSourceManager*>(this)->localCounter);
    localName += u8".trs"; return src::Descriptor{ type, localName };
  }
  src::Source* Find(const src::Descriptor& d) override { if (d.type != src::SrcType::rsDoc) return nullptr; auto* s = ByName(d.name); return s && s->open ? s : nullptr; }
  src::Descriptor GetDescriptor(const src::Source& s) const override { if (const auto* p = dynamic_cast<const SimSource*>(&s)) return src::Descriptor{ src::SrcType::rsDoc, p->fullName }; return src::Descriptor{}; }
  bool ChangeDescriptor(const src::Descriptor& d, const src::Descriptor& nd) override {
    if (renameRefused) { Fired("rename_refused"); return false; }
    if (d.type != nd.type || d.type != src::SrcType::rsDoc) return false;
    auto* t = dynamic_cast<SimSource*>(Find(d)); if (t == nullptr || ByName(nd.name) != nullptr) return false;
    t->fullName = nd.name; return true;
  }
  src::Source* CreateNew(const src::Descriptor& d) override {
    if (createFails) { Fired("create_fails"); return nullptr; }
    if (d.type != src::SrcType::rsDoc || Find(d) != nullptr) return nullptr;
    if (auto* closed = ByName(d.name)) { closed->exists = false; }   // a closed document of that name is overwritten by the new one
    sources.push_back(std::make_unique<SimSource>()); sources.back()->fullName = d.name; sources.back()->dirty = false; return sources.back().get();
  }
  src::Source* Open(const src::Descriptor& d) override {
    if (openFails) { Fired("open_fails"); return nullptr; }
    if (d.type != src::SrcType::rsDoc) return nullptr;
    auto* s = ByName(d.name); if (s == nullptr) return nullptr;
    s->open = true; OnSourceOpen(*s); return s;
  }
  bool SaveState(src::Source& x) override {
    auto& s = dynamic_cast<SimSource&>(x);
    if (crashing) return false;
    if (!s.open) return false;
    if (s.unsavable) { Fired("save_fails"); return false; }
    if (s.dirty) { Announce(s); if (dupNotify) { Fired("duplicated_announcement"); Announce(s); } }
    s.Persist(); return true;
  }
  void Close(src::Source& x) override {
    auto& s = dynamic_cast<SimSource&>(x);
    if (crashing) { s.open = false; return; }
    Announce(s); OnSourceClose(s);       // as the upstream fake does: announce, then close
    s.Persist(); s.open = false;
  }
  void Discard(const src::Descriptor& d) override { if (auto* s = Open(d); s != nullptr) { s->ReleaseClaim(); Close(*s); } }
};

class OssSim final : public Engine {
  SimSourceManager* mgr{ nullptr };
  std::unique_ptr<oss::OSSchema> S;
  std::unique_ptr<oss::OSSchema> other;   // another document of the same kind open in the same environment (it shares the source manager's observer list)
  std::string savedOss; bool hasSavedOss{ false };
  SimTextProc* proc{ nullptr };
  std::string focus;
  std::map<std::string, uint64_t> faultCounter;
  // freshness bookkeeping
  std::map<PictID, const void*> execWitness;                       // translations pointer seen last
  std::map<PictID, std::map<PictID, change::Hash>> basis;          // p -> parent -> coreHash seen at p's last execution
  // the harness's own view, independent of what the OSS recorded: which document a pictogram is associated with (kept across close / reopen
  // as long as the handle still names it), and the formal content each parent's document had when an operation was last executed
  struct Assoc { SimSource* s; src::Descriptor desc; };
  std::map<PictID, Assoc> assoc;
  struct Basis2 { SimSource* s; change::Hash hash; };
  std::map<PictID, std::map<PictID, Basis2>> basis2; std::map<PictID, uint64_t> execTick;
  int newSrcCounter{ 0 };
  int restartedRecently{ 0 };
  std::map<PictID, std::vector<PictID>> parentModel;               // reference view of the parent relation (from InsertOperation calls / the loaded document)

  std::vector<PictID> Picts() const { std::vector<PictID> v; for (const auto& p : *S) v.push_back(p.uid); std::sort(v.begin(), v.end()); return v; }
  std::optional<PictID> Pict(int64_t i) const { const auto v = Picts(); if (v.empty()) return std::nullopt; return v[static_cast<size_t>(i) % v.size()]; }
  std::vector<SimSource*> LiveSources() const { std::vector<SimSource*> v; for (auto& s : mgr->sources) if (s->exists) v.push_back(s.get()); return v; }
  SimSource* Source(int64_t i) const { const auto v = LiveSources(); if (v.empty()) return nullptr; return v[static_cast<size_t>(i) % v.size()]; }
  SimSource* SourceOf(PictID p) const { const auto* h = S->Src()(p); return h && h->src ? dynamic_cast<SimSource*>(h->src) : nullptr; }

  std::string DumpOss() const { JSON j = *S; return j.dump(-1, ' ', false, JSON::error_handler_t::replace); }

  // ---------------------------------------------------------------- invariants
  void CheckStructure(Ctx& c, const std::string& trig) {
    c.Oracle("oss_structure"); c.nontrivial = true;
    std::set<std::pair<int, int>> cells;
    for (const auto& p : *S) {
      const auto pos = S->Grid()(p.uid);
      if (!pos.has_value()) { c.Fail("C19", "grid_cell_missing", trig, "pictogram " + std::to_string(p.uid) + " has no grid cell"); return; }
      if (!cells.insert({ pos->row, pos->column }).second) { c.Fail("C19", "grid_cell_shared", trig, "two pictograms share one grid cell"); return; }
      const auto back = S->Grid()(*pos); if (!back.has_value() || *back != p.uid) { c.Fail("C19", "grid_inconsistent", trig, "grid cell of pictogram does not map back to it"); return; }
      if (S->Src()(p.uid) == nullptr) { c.Fail("C19", "source_handle_missing", trig, "pictogram " + std::to_string(p.uid) + " has no source handle"); return; }
      const auto parents = S->Graph().ParentsOf(p.uid);
      if (S->Ops()(p.uid) != nullptr) {
        if (parents.size() != 2 || parents[0] == parents[1] || !S->Contains(parents[0]) || !S->Contains(parents[1])) { c.Fail("C19", "operation_parents", trig, "operation pictogram " + std::to_string(p.uid) + " does not have two distinct existing parents (" + std::to_string(parents.size()) + ")"); return; }
      } else if (!parents.empty()) { c.Fail("C19", "base_with_parents", trig, "base pictogram has parents"); return; }
    }
    if (S->Grid().data().size() != S->size()) { c.Fail("C19", "grid_size", trig, "grid holds " + std::to_string(S->Grid().data().size()) + " cells for " + std::to_string(S->size()) + " pictograms"); return; }
    // parent relation equals the reference view, and ChildrenOf is its inverse
    for (const auto& p : *S) {
      const auto parents = S->Graph().ParentsOf(p.uid); const auto it = parentModel.find(p.uid);
      const std::vector<PictID> expect = it == parentModel.end() ? std::vector<PictID>{} : it->second;
      if (parents != expect) { std::string a, b; for (auto x : parents) a += std::to_string(x) + " "; for (auto x : expect) b += std::to_string(x) + " "; c.Fail("C19", "parents_changed", trig, "pictogram " + std::to_string(p.uid) + " reports parents [" + a + "] but was created / loaded with [" + b + "]"); return; }
      for (auto q : parents) { const auto ch = S->Graph().ChildrenOf(q); if (std::find(ch.begin(), ch.end(), p.uid) == ch.end()) { c.Fail("C19", "children_not_inverse", trig, "ChildrenOf(" + std::to_string(q) + ") misses " + std::to_string(p.uid)); return; } }
      for (auto ch : S->Graph().ChildrenOf(p.uid)) { const auto pp = S->Graph().ParentsOf(ch); if (std::find(pp.begin(), pp.end(), p.uid) == pp.end()) { c.Fail("C19", "children_not_inverse", trig, "ChildrenOf(" + std::to_string(p.uid) + ") lists " + std::to_string(ch) + " which does not have it as a parent"); return; } }
    }
    for (const auto& [child, parent] : S->Graph().EdgeList()) if (!S->Contains(child) || !S->Contains(parent)) { c.Fail("C19", "edge_to_missing", trig, "parent relation names a missing pictogram"); return; }
    // acyclic parent relation
    std::map<PictID, int> st; bool cyc = false;
    std::function<void(PictID)> dfs = [&](PictID x) { st[x] = 1; for (auto q : S->Graph().ParentsOf(x)) { if (st[q] == 1) cyc = true; else if (st[q] == 0) dfs(q); } st[x] = 2; };
    for (const auto& p : *S) if (st[p.uid] == 0) dfs(p.uid);
    if (cyc) { c.Fail("C19", "parent_cycle", trig, "parent relation has a cycle"); return; }
    // (exclusive use of a source by one pictogram is not part of the statement: OpenSrc can attach an already connected document; not checked)
  }
  void UpdateWitnesses() {
    for (const auto& p : *S) {
      const auto* op = S->Ops()(p.uid); if (op == nullptr) continue;
      const void* w = op->translations.get();
      if (w != nullptr && execWitness[p.uid] != w) {
        execWitness[p.uid] = w; auto& b = basis[p.uid]; b.clear();
        for (auto q : S->Graph().ParentsOf(p.uid)) if (const auto* h = S->Src()(q)) b[q] = h->coreHash;
        auto& b2 = basis2[p.uid]; b2.clear(); execTick[p.uid] = mgr->tick;
        for (auto q : S->Graph().ParentsOf(p.uid)) if (auto* sq = SourceOf(q)) b2[q] = Basis2{ sq, sq->CoreHash() };
      }
      if (w == nullptr) { execWitness.erase(p.uid); basis.erase(p.uid); basis2.erase(p.uid); execTick.erase(p.uid); }
    }
  }
  // association model: attached now -> associated; detached -> stays associated while the handle still names the same existing document.
  // An op that ran with an injected source-manager fault, or a second pictogram naming the same document, ends the association (the OSS may
  // legitimately not re-attach then).
  void UpdateAssoc(bool opHadFault) {
    std::map<std::u8string, int> named;
    for (const auto& p : *S) if (const auto* h = S->Src()(p.uid); h && !h->empty()) named[h->desc.name]++;
    for (const auto& p : *S) {
      const auto* h = S->Src()(p.uid);
      if (h == nullptr || h->empty()) { assoc.erase(p.uid); continue; }
      if (h->src != nullptr) { if (auto* ss = dynamic_cast<SimSource*>(h->src)) assoc[p.uid] = Assoc{ ss, h->desc }; else assoc.erase(p.uid); continue; }
      auto it = assoc.find(p.uid); if (it == assoc.end()) continue;
      SimSource* ss = it->second.s;
      const bool live = ss->exists && std::any_of(mgr->sources.begin(), mgr->sources.end(), [&](auto& u) { return u.get() == ss; });
      if (!live || opHadFault || named[h->desc.name] > 1 || !(h->desc == it->second.desc) || !(mgr->Convert2Local(mgr->GetDescriptor(*ss), S->Src().ossDomain) == h->desc)) assoc.erase(it);
    }
    for (auto it = assoc.begin(); it != assoc.end();) if (!S->Contains(it->first)) it = assoc.erase(it); else ++it;
  }
  // independent of the OSS's own records: an announced change of the document associated with a parent, made after the last execution and
  // giving it a formal content different from the one the execution used, means the operation must not report done
  void CheckFreshnessModel(Ctx& c, const std::string& trig) {
    c.Oracle("freshness_model");
    for (const auto& p : *S) {
      const auto* op = S->Ops()(p.uid); if (op == nullptr || !basis2.count(p.uid)) continue;
      const auto* h = S->Src()(p.uid); if (h == nullptr || h->empty()) continue;
      if (S->Ops().StatusOf(p.uid) != ops::Status::done) continue;
      for (auto& [q, b] : basis2[p.uid]) {
        auto it = assoc.find(q); if (it == assoc.end() || it->second.s != b.s || !b.s->exists) continue;
        if (b.s->announcedAt > execTick[p.uid] && b.s->announcedHash != b.hash) {
          c.Probe(SourceOf(q) == nullptr ? "announced_change_of_detached_parent_document" : "announced_change_of_attached_parent_document");
          c.Fail("C19", "done_but_announced_change", trig + (SourceOf(q) == nullptr ? "/parent-document-not-attached" : "/parent-document-attached"), "operation " + std::to_string(p.uid) + " reports done although a change of the document of its parent " + std::to_string(q) + " was announced after its last execution and altered the formal content (executed at event " + std::to_string(execTick[p.uid]) + ", announced at event " + std::to_string(b.s->announcedAt) + ", hash at execution " + std::to_string(b.hash) + ", announced " + std::to_string(b.s->announcedHash) + ", recorded by the OSS " + std::to_string(S->Src()(q)->coreHash) + ", document now " + std::to_string(b.s->CoreHash()) + ")");
          return;
        }
      }
    }
  }
  void CheckFreshness(Ctx& c, const std::string& trig) {
    c.Oracle("freshness");
    for (const auto& p : *S) {
      const auto* op = S->Ops()(p.uid); if (op == nullptr || !basis.count(p.uid)) continue;
      const auto* h = S->Src()(p.uid); if (h == nullptr || h->empty()) continue;     // no stored result
      if (S->Ops().StatusOf(p.uid) != ops::Status::done) continue;
      for (auto& [q, hash] : basis[p.uid]) {
        const auto* hq = S->Src()(q); if (hq == nullptr || hq->empty()) continue;   // parent has no source association any more (operator discarded it): not a content change
        if (hq->coreHash != hash) {
          const bool grand = S->Ops()(q) != nullptr;
          c.Fail("C19", "done_but_parent_changed", trig + (grand ? "/parent-is-operation" : "/parent-is-base"), "operation " + std::to_string(p.uid) + " reports done although the formal content of its parent " + std::to_string(q) + " (as recorded by the OSS) changed since its last execution");
          return;
        }
      }
    }
  }

  // result of p equals synthesis of current parents (inherited part) with user additions carried over
  struct Snap2 { std::string alias, def; CstType type; std::string conv; };
  void CheckExecution(Ctx& c, PictID p, const std::vector<Snap2>& oldUser, bool autoDiscard, const std::string& trig);
  std::vector<Snap2> UserAdditions(PictID p) {
    std::vector<Snap2> v; auto* s = SourceOf(p); if (!s) return v;
    for (const auto uid : s->schema.List()) if (!s->schema.Mods().IsTracking(uid)) v.push_back({ s->schema.GetRS(uid).alias, s->schema.GetRS(uid).definition, s->schema.GetRS(uid).type, s->schema.GetRS(uid).convention });
    return v;
  }

public:
  const char* Name() const override { return "osssim"; }
  std::vector<std::string> Properties() const override { return { "C19", "C12" }; }
  uint64_t DefaultRuns(const std::string&, bool thorough) const override { return thorough ? 120000 : 4000; }
  Cfg GenCfg(Rng& r, const std::string&, bool thorough) override {
    Cfg c; c["steps"] = thorough ? r.Range(10, 90) : r.Range(10, 50); c["max_picts"] = thorough ? r.Range(3, 12) : r.Range(3, 9); c["p_recovery"] = r.Pct(30) ? 0 : r.Range(4, 25);
    c["uid_policy"] = r.Range(0, 4); c["uid_range"] = r.Range(8, 24);
    c["expr_depth"] = r.Range(1, 2); c["p_mutant"] = r.Pct(60) ? 0 : r.Range(3, 15);
    c["p_fault"] = r.Pct(35) ? 0 : r.Range(2, 15);
    c["w_operator"] = r.Range(3, 8); c["w_exec"] = r.Range(2, 8); c["w_editor"] = r.Range(2, 8); c["w_env"] = r.Range(1, 6);
    c["domain"] = r.Pct(30);
    c["storm_after"] = r.Pct(25) ? r.Range(12, 30) : 0; c["other_first"] = r.Pct(20);
    return c;
  }
  void Begin(Ctx& c) override {
    focus = c.focus; proc = InstallTextProc(); proc->limit = 24;
    auto m = std::make_unique<SimSourceManager>(); mgr = m.get(); faultCounter.clear(); mgr->faultCounter = &faultCounter;
    Environment::Instance().SetSourceManager(std::move(m));
    other.reset();
    if (c.C("other_first", 0)) { other = std::make_unique<oss::OSSchema>(); other->InsertBase(); }   // an older document of the same kind is already open
    S = std::make_unique<oss::OSSchema>();
    if (c.C("domain")) S->Src().ossDomain = u8"dom/";
    hasSavedOss = false; savedOss.clear(); execWitness.clear(); basis.clear(); newSrcCounter = 0; parentModel.clear(); restartedRecently = 0;
  }
  void Destroy() override {
    S.reset(); other.reset();
    Environment::Instance().SetSourceManager(std::make_unique<SourceManager>()); mgr = nullptr;
    RemoveTextProc(); proc = nullptr;
  }
  std::string CrashProperty(const std::string&, const Op&) const override { return "C19"; }
  std::vector<std::string> RealComponents() const override { return { "ccl::oss::OSSchema with grid / graph / source / operations facets", "RSSProcessor, ops::BinarySynthes, ops::RSAggregator, RSEquationProcessor", "semantic::RSForm operands and results", "JSON (de)serialisation of the OSS", "Environment singleton" }; }
  std::vector<std::string> StubComponents() const override { return { "SourceManager and Sources (simulator-owned, following the contract of the upstream FakeSourceManager; faults: save / write / create / open failures, rejected domain, refused rename, duplicated, delayed and lost announcements, destroyed and replaced documents)", "document store of sources and of the OSS (crash / restart with permuted item order)", "identifier entropy (hook H1)", "text processor stub" }; }
  std::string Rule(const std::string& f) const override {
    return std::string("one evaluation = one seeded run: 10-50 ops by three kinds of clients chosen by the scheduler — OSS operator (InsertBase, InsertOperation, Erase, titles, ShiftPict, ConnectPict2Src / ConnectSrc2Pict, Rename, Discard, OpenSrc, ReconnectAll, InitFor merge / synthesis with a table drawn from the parents' constituents, Execute, ExecuteAll, IsExecutable, IsTranslatable), editors of sources (Emplace, SetExpressionFor, Erase, SetTermFor on operands and on results) and the environment (new source, save = announcement, close, open, destroy, replace while closed, save OSS, crash and restart with permuted items, permuted or interleaved connection records + ReconnectAll), with source-manager faults attached to ops. ")
      + (f == "C12" ? "Oracle (C12 facet): after every successful Execute the stored result and translations satisfy the synthesis postconditions against a synthesis of the parents recomputed by the harness." : "Oracles: structure invariants (two distinct existing parents, acyclic, one grid cell and one source handle per pictogram, only leaves erased, refused edits change nothing) after every step; after a successful Execute the result equals the harness's own synthesis of the parents' current schemas on the inherited part and carries over user additions; freshness: an operation with a stored result that reports done has parents whose recorded core hash equals the one at its last execution; announcements are taken in; freshness_model (independent of the OSS's records): no operation reports done after the document associated with one of its parents announced, after the operation's last execution, a formal content different from the one used; in 25 % of runs a second phase in which environment events and editors dominate.")
      + " distinct_nontrivial = distinct whole-run op-kind sequences.";
  }
  std::vector<std::string> Assumptions(const std::string&) const override { return { "the environment follows the contract embodied by the upstream FakeSourceManager; a notification is never delivered for a source Find cannot return", "re-execution is witnessed by the identity of the stored translations object; the freshness basis is read right after the op that executed the operation", "user additions are compared up to identifier renaming", "freshness_model: 'a pictogram's source' is the document the OSS last attached to it, for as long as the pictogram's handle keeps naming that existing document; a step with an injected source-manager fault, or a second pictogram naming the same document, ends the association; only announcements made by the source manager after the operation's last execution count" }; }

  bool GenOp(Ctx& c, Op& op) override;
  void Exec(Ctx& c, const Op& op) override;
  void End(Ctx& c) override { if (S) { CheckStructure(c, "end"); if (!c.Failed()) CheckFreshness(c, "end"); if (!c.Failed()) CheckFreshnessModel(c, "end"); } }
};

#include "osssim_ops.inc"

} // namespace

int main(int argc, char** argv) { OssSim e; return sim::Main(argc, argv, e); }
